#!/bin/bash
# intake.sh <Cxx> <k> [checks...]: confirm /tmp/out-Cxx/m<k>, copy to /verif/seeded/Cxx-m<k>, evaluate
id=$1; k=$2; shift 2
src=/tmp/out-$id/m$k
dst=/verif/seeded/$id-m$k
race=""; [ "$id" = "C12" ] && race="-race"
conf=$(/verif/tools/confirm_mutant.sh $src $race 2>&1 | tail -2 | tr '\n' ' ')
echo "== $id-m$k confirm: $conf"
case "$conf" in *NOT-CONFIRMED*) exit 1;; esac
mkdir -p $dst && cp $src/patch.diff $src/demo_test.go $dst/ && cp $src/NOTES.md $dst/NOTES.md 2>/dev/null
checks="$@"; [ -z "$checks" ] && checks=$id
res=$(/verif/tools/eval_mutant.sh $dst $checks 2>&1)
echo "$res"
python3 - "$id" "$k" "$dst" "$conf" "$res" <<'PY'
import json,sys
id,k,dst,conf,res=sys.argv[1:6]
notes=open(dst+'/NOTES.md').read() if __import__('os').path.exists(dst+'/NOTES.md') else ''
json.dump({"breaks_property":id,"source":"independent sub-agent given only the property text and a scratch worktree","needs_to_manifest":notes[:1500],
 "confirmed":conf,"ran":"tools/confirm_mutant.sh (scratch worktree: clean demo passes, patch applies, builds, existing suite passes, demo fails) ; tools/eval_mutant.sh "+dst,"check_results":res.splitlines()},open(dst+'/meta.json','w'),indent=1,ensure_ascii=False)
PY
