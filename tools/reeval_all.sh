#!/bin/bash
# re-evaluate every seeded change with the current engine; writes /verif/seeded/RESULTS.txt
cd /verif
declare -A extra=( [C01-m2]="C13" [C02-m2]="C13" [C05-m1]="C13" [C04-m2]="C13" [C14-m2]="C13" [C13-m1]="C02" [C01-m1]="C02" [C15-m1]="C03 C02" [C15-m2]="C03" [C03-m1]="C15" [C08-m2]="C02" [C02-m1]="C08" [C06-m2]="C07" [C07-m2]="C06" [C10-m2]="C03" [pinned-D1]="C02 C03 C15" [pinned-D2D3]="C16 C14" [r2-C09-m2]="C14" [r2-C03-m1]="C02" [r2-C03-m3]="C15" [r2-C02-m1]="C10" [r2-C13-m1]="C04" [r2-C13-m2]="C02" [r2-C01-m1]="C08" [r2-C05-m1]="C01" [r2-C05-m2]="C01")
: > seeded/RESULTS.txt
for d in seeded/*/; do
  n=$(basename $d)
  [ -f $d/patch.diff ] || continue
  own=${n#r2-}; own=${own%%-*}
  checks="$own ${extra[$n]}"
  case $n in pinned-*) checks="${extra[$n]}";; esac
  echo "== $n" | tee -a seeded/RESULTS.txt
  tools/eval_mutant.sh $d $checks 2>&1 | cut -c1-400 | tee -a seeded/RESULTS.txt
done
