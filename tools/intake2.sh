#!/bin/bash
# intake2.sh <srcdir> <name> <prop> [checks...]: confirm, copy to /verif/seeded/<name>, evaluate
src=$1; name=$2; prop=$3; shift 3
dst=/verif/seeded/$name
race=""; [ "$prop" = "C12" ] && race="-race"
conf=$(/verif/tools/confirm_mutant.sh $src $race 2>&1 | tail -2 | tr '\n' ' ')
echo "== $name confirm: $conf"
case "$conf" in *NOT-CONFIRMED*) exit 1;; esac
mkdir -p $dst && cp $src/patch.diff $src/demo_test.go $dst/ && cp $src/NOTES.md $dst/NOTES.md 2>/dev/null
checks="$@"; [ -z "$checks" ] && checks=$prop
res=$(/verif/tools/eval_mutant.sh $dst $checks 2>&1)
echo "$res"
python3 - "$prop" "$dst" "$conf" "$res" <<'PY'
import json,sys,os
prop,dst,conf,res=sys.argv[1:5]
notes=open(dst+'/NOTES.md').read() if os.path.exists(dst+'/NOTES.md') else ''
json.dump({"breaks_property":prop,"source":"independent sub-agent given only the property text and a scratch worktree","needs_to_manifest":notes[:1500],
 "confirmed":conf,"ran":"tools/confirm_mutant.sh (scratch worktree: clean demo passes, patch applies, builds, existing suite passes, demo fails) ; tools/eval_mutant.sh "+dst,"check_results":res.splitlines()},open(dst+'/meta.json','w'),indent=1,ensure_ascii=False)
PY
