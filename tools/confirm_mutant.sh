#!/bin/bash
# confirm_mutant.sh <dir with patch.diff + demo_test.go> [-race]
# Confirms in a scratch worktree: clean tree passes demo; with patch: builds, existing suite passes, demo fails.
set -u
d=$(readlink -f "$1"); race=${2:-}
export GOFLAGS=-mod=mod GOPROXY=off GOSUMDB=off GOTOOLCHAIN=local
wt=$(mktemp -d /tmp/confirm-XXXXXX); rmdir $wt
git -C /repo worktree add -q --detach $wt HEAD || exit 2
res=""
cd $wt
cp $d/demo_test.go zz_demo_test.go
if go test $race -vet=off -count=1 -run TestDemo . >/tmp/confirm.$$.log 2>&1; then res="$res clean-demo:PASS"; else res="$res clean-demo:FAIL"; fi
rm -f zz_demo_test.go
if git apply $d/patch.diff 2>/tmp/confirm.$$.err; then res="$res apply:ok"; else res="$res apply:FAILED"; fi
if go build ./... >/dev/null 2>&1; then res="$res build:ok"; else res="$res build:FAILED"; fi
if go test -vet=off -count=1 ./... >/tmp/confirm.$$.log 2>&1; then res="$res suite:PASS"; else res="$res suite:FAIL"; fi
cp $d/demo_test.go zz_demo_test.go
if go test $race -vet=off -count=1 -run TestDemo . >/tmp/confirm.$$.log 2>&1; then res="$res patched-demo:PASS"; else res="$res patched-demo:FAIL"; fi
cd /
git -C /repo worktree remove --force $wt
rm -f /tmp/confirm.$$.*
echo "$res"
case "$res" in *"clean-demo:PASS apply:ok build:ok suite:PASS patched-demo:FAIL"*) echo CONFIRMED; exit 0;; *) echo NOT-CONFIRMED; exit 1;; esac
