#!/bin/bash
# eval_mutant.sh <dir with patch.diff> <check ids...>
# Runs the named quick checks against a scratch worktree of /repo with the patch applied
# (VERIF_REPO points the engine at it; /repo itself is not touched). Prints one line per check.
set -u
d=$(readlink -f "$1"); shift
wt=$(mktemp -d /tmp/evalwt-XXXXXX); rmdir $wt
ev=$(mktemp -d /tmp/evalev-XXXXXX)
git -C /repo worktree add -q --detach $wt HEAD || exit 2
( cd $wt && git apply $d/patch.diff ) || { echo "patch does not apply"; git -C /repo worktree remove --force $wt; exit 2; }
for id in "$@"; do
  vd=${VERIF_SNAP:-/verif}
  out=$(cd $vd && VERIF_DIR=$vd VERIF_REPO=$wt VERIF_EVIDENCE_DIR=$ev timeout 1800 ./bin/verif check $id --tier ${TIER:-quick} 2>&1); rc=$?
  nv=$(echo "$out" | grep -c '^VIOLATION')
  ni=$(echo "$out" | grep -c '^INCONCLUSIVE')
  nb=$(echo "$out" | grep -c '^BROKEN')
  echo "$id rc=$rc violations=$nv inconclusive=$ni broken=$nb :: $(echo "$out" | grep -E '^(INCONCLUSIVE|BROKEN|STRUCTURAL)' | head -2 | cut -c1-220 | tr '\n' ' ')"
  if [ $nv -gt 0 ]; then f=$(echo "$out" | grep '^VIOLATION' | head -1 | sed 's/.*replay=//'); python3 -c "
import json,sys
v=json.load(open('$f')); print('   first violation:', v.get('harness'), v.get('args'), v.get('label'), str(v.get('vals'))[:300], '|', str(v.get('note'))[:200])"; fi
done
git -C /repo worktree remove --force $wt
rm -rf $ev
