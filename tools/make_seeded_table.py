#!/usr/bin/env python3
"""Builds the table of DESIGN.md §8.1 from seeded/RESULTS.txt (+ round-2 intake results in meta.json) and refreshes meta.json."""
import json, os, re, sys, glob
root = '/verif/seeded'
results = {}
cur = None
for line in open(os.path.join(root, 'RESULTS.txt')):
    line = line.rstrip('\n')
    if line.startswith('== '):
        cur = line[3:].strip(); results[cur] = []
    elif cur and re.match(r'^(C\d+) rc=', line):
        m = re.match(r'^(C\d+) rc=(\d+) violations=(\d+) inconclusive=(\d+) broken=(\d+)', line)
        results[cur].append({'check': m.group(1), 'rc': int(m.group(2)), 'violations': int(m.group(3)), 'inconclusive': int(m.group(4)), 'broken': int(m.group(5)), 'how': ''})
    elif cur and 'first violation:' in line and results[cur]:
        results[cur][-1]['how'] = 'fallback witness' if 'reference-side witness' in line else ('native -race / stress replay' if 'H_C12' in line else 'solver model, replayed natively')
        results[cur][-1]['first'] = line.strip()[:260]

def summary(name):
    d = os.path.join(root, name)
    notes = ''
    p = os.path.join(d, 'NOTES.md')
    if os.path.exists(p):
        txt = open(p).read()
        txt = re.sub(r'[#*`]', '', txt)
        lines = [l.strip() for l in txt.splitlines() if l.strip()]
        notes = ' '.join(lines)[:230]
    elif name == 'pinned-D1':
        notes = 'reverse of fix 748eafa: CheckMnemonic hashes big.Int.Bytes() (leading zero bytes dropped); needs entropy[0]==0'
    elif name == 'pinned-D2D3':
        notes = 'reverse of fix b7b99cb: stale stringer table (Portuguese) and no lower bound check (negative values panic)'
    return notes.replace('|', '/')

rows = []
for name in sorted(results):
    rs = results[name]
    caught = [r for r in rs if r['violations'] > 0]
    quiet = [r['check'] for r in rs if r['violations'] == 0]
    c = '; '.join('%s (%s)' % (r['check'], r['how'] or 'violation') for r in caught) or '**missed**'
    rows.append('| %s | %s | %s | %s |' % (name, summary(name), c, ', '.join(quiet)))
    mp = os.path.join(root, name, 'meta.json')
    meta = json.load(open(mp)) if os.path.exists(mp) else {'breaks_property': name}
    meta['check_results'] = rs
    meta['caught_by'] = [r['check'] for r in caught]
    json.dump(meta, open(mp, 'w'), indent=1, ensure_ascii=False)
print('| change | what it is / what it needs (from the author\'s notes) | caught by (how) | also run, quiet |')
print('|---|---|---|---|')
print('\n'.join(rows))
n = len(rows); missed = sum(1 for r in rows if '**missed**' in r)
print('\n%d changes, %d caught, %d missed.' % (n, n - missed, missed))
