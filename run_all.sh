#!/bin/bash
# run every registered quick (or $1=thorough) check in sequence; summary lines only
tier=${1:-quick}
cd /verif
for id in $(python3 -c "import json;print(' '.join(c['property_id'] for c in json.load(open('MANIFEST.json'))['checks']))"); do
  s=$(date +%s)
  out=$(./bin/verif check $id --tier $tier 2>&1); rc=$?
  echo "$id rc=$rc $(( $(date +%s) - s ))s :: $(echo "$out" | grep '^property=' | tail -1)"
  echo "$out" | grep -E '^(VIOLATION|BROKEN|INCONCLUSIVE|KNOWN-FINDING|STRUCTURAL)' | head -5
done
