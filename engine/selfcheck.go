package main

// setup-time self checks: translator validation on reference vectors, differential test of the
// math/big model against the library, and the NFKD contract instances the stubs rely on.

import (
	"fmt"
	"math/big"
	"math/rand"
	"os"
	"strconv"
	"strings"

	"golang.org/x/text/unicode/norm"
	"golang.org/x/tools/go/ssa"
)

func selfcheck() int {
	bad := 0
	fail := func(f string, a ...interface{}) {
		bad++
		fmt.Printf("selfcheck FAIL: "+f+"\n", a...)
	}
	seed := int64(1)
	if s := os.Getenv("VERIF_SEED"); s != "" {
		if v, err := strconv.ParseInt(s, 10, 64); err == nil {
			seed = v
		}
	}
	rng := rand.New(rand.NewSource(seed))

	// 1. golden lists: 2048 distinct, non-empty, whitespace-free, NFKD-stable words; digests
	for lg := 0; lg < 10; lg++ {
		l := goldenList(lg)
		seen := map[string]bool{}
		for i, w := range l {
			if w == "" || hasWS(w) || norm.NFKD.String(w) != w || seen[w] {
				fail("golden list %s entry %d %q is empty/has whitespace/not NFKD-stable/duplicate", goldenFiles[lg], i, w)
			}
			seen[w] = true
		}
	}

	// 2. NFKD contract instances
	pool := append([]string{}, opaquePool...)
	pool = append(pool, "", "a", "́", "̣́x", "x̣́", "ｍｎｅｍｏｎｉｃ", "각", "가각")
	for lg := 0; lg < 10; lg++ {
		for _, w := range goldenList(lg) {
			for form := 0; form <= 5; form++ {
				if form == 4 {
					continue
				}
				if norm.NFKD.String(respell(w, form)) != w {
					fail("NFKD(respell(%q,%d)) != word", w, form)
				}
			}
		}
	}
	for i := 0; i < 2000; i++ {
		n := 1 + rng.Intn(6)
		toks := make([]string, n)
		seps := []string{" ", "　", "\t", "\n", " ", " "}
		var raw, want strings.Builder
		for k := 0; k < n; k++ {
			if rng.Intn(2) == 0 {
				toks[k] = goldenList(rng.Intn(10))[rng.Intn(2048)]
			} else {
				toks[k] = strings.ReplaceAll(strings.ReplaceAll(pool[rng.Intn(len(pool))], " ", ""), "　", "")
				toks[k] = strings.Map(func(r rune) rune {
					if isWS(r) {
						return -1
					}
					return r
				}, toks[k])
			}
			if k > 0 {
				s := seps[rng.Intn(len(seps))]
				raw.WriteString(s)
				want.WriteString(norm.NFKD.String(s))
			}
			raw.WriteString(toks[k])
			want.WriteString(norm.NFKD.String(toks[k]))
		}
		got := norm.NFKD.String(raw.String())
		// token-wise action holds unless a token begins with a combining mark right after a separator-free boundary;
		// separators are starters, so it must hold here
		if got != want.String() {
			fail("NFKD is not token-wise on %q: %q vs %q", raw.String(), got, want.String())
		}
		if norm.NFKD.String(got) != got {
			fail("NFKD not idempotent on %q", raw.String())
		}
		p := pool[rng.Intn(len(pool))]
		if norm.NFKD.String("mnemonic"+p) != "mnemonic"+norm.NFKD.String(p) {
			fail("NFKD(\"mnemonic\"+p) != \"mnemonic\"+NFKD(p) for %q", p)
		}
	}
	if norm.NFKD.String("　") != " " || norm.NFKD.String(" ") != " " {
		fail("NFKD of U+3000 / U+0020 is not U+0020")
	}

	// 3. math/big model vs the library
	if n := selfcheckBig(rng); n > 0 {
		fail("%d math/big model mismatches", n)
	}

	// 4. reference vectors through reference, real functions and the encoding
	P, err := LoadProgram()
	if err != nil {
		fmt.Println("selfcheck: cannot load /repo:", err)
		return 2
	}
	tmp, _ := os.MkdirTemp("", "verif-self-")
	defer os.RemoveAll(tmp)
	spec := &PropertySpec{ID: "SELF", Level: "model_checking"}
	c := &CheckRun{Spec: spec, Cfg: Config{Tier: "quick", Solvers: []string{"z3-new"}, Timeout: 60000, Workers: 1}, P: P,
		Stats: map[string]*SolverStats{"z3-new": {}}, Replayer: NewReplayer(tmp), TmpDir: tmp, Extra: map[string]interface{}{}}
	c.Insts = []*Instance{{Harness: "H_selfcheck", Lang: 2, MaxWitnesses: 1}}
	runInstances(P, c.Insts, c.Cfg, c.Stats)
	c.judge()
	i := c.Insts[0]
	if len(i.Findings) > 0 || len(c.Violations) > 0 {
		for _, f := range i.Findings {
			fail("reference vector assertion %q fails in the encoding", f.Label)
		}
	}
	if c.Validated != 1 || len(c.ValidMis) > 0 || len(c.Broken) > 0 || i.Inconclusive() {
		fail("translator validation on the reference vectors: validated=%d mismatches=%v broken=%v ends=%v notes=%v", c.Validated, c.ValidMis, c.Broken, i.EndMsgs, i.Notes)
	}
	// solvers present and agreeing on a trivial query pair
	for _, s := range []string{"z3-new", "z3", "cvc5"} {
		st := &SolverStats{}
		sv := NewSolver(s, 10000, 1, st)
		a := Var("selfcheck_a", 8)
		r1, _ := sv.Check([]*Term{Eq(Add(a, BVi(1, 8)), BVi(0, 8))}, nil)
		r2, _ := sv.Check([]*Term{Ult(a, BVi(0, 8))}, nil)
		sv.Close()
		if r1 != "sat" || r2 != "unsat" {
			fail("solver %s gives %s/%s on the sanity queries", s, r1, r2)
		}
	}
	if bad > 0 {
		fmt.Printf("selfcheck: %d failures\n", bad)
		return 1
	}
	fmt.Printf("selfcheck: ok (golden lists, NFKD contract on %d list words x 5 spellings + 2000 random sentences, math/big model, reference vectors: %d obligations, engine predictions == native outputs)\n", 20480, i.Obl)
	return 0
}

// selfcheckBig evaluates each big.Int intrinsic on concrete operands and compares with math/big.
func selfcheckBig(rng *rand.Rand) int {
	x := &Exec{inst: &Instance{}, globals: map[*ssa.Global]*Object{}, externs: map[string]*Object{}, writes: map[string]bool{}}
	mk := func(v *big.Int) Value {
		return x.bigNew(BigV{Neg: v.Sign() < 0, Mag: BV(new(big.Int).Abs(v), BigW)})
	}
	val := func(p Value) *big.Int {
		b := x.bigLoad(p)
		v := new(big.Int).Set(b.Mag.Val)
		if b.Neg {
			v.Neg(v)
		}
		return v
	}
	randBig := func() *big.Int {
		switch rng.Intn(8) {
		case 0:
			return big.NewInt(0)
		case 1:
			return big.NewInt(int64(rng.Intn(4096)))
		case 2:
			return new(big.Int).Lsh(big.NewInt(1), uint(rng.Intn(300)))
		case 3:
			v := new(big.Int).Lsh(big.NewInt(1), uint(1+rng.Intn(300)))
			return v.Sub(v, big.NewInt(1))
		}
		n := 1 + rng.Intn(34)
		b := make([]byte, n)
		rng.Read(b)
		if rng.Intn(4) == 0 {
			b[0] = 0
		}
		return new(big.Int).SetBytes(b)
	}
	bad := 0
	report := func(op string, args ...interface{}) {
		bad++
		if bad < 10 {
			fmt.Println("big model mismatch:", op, args)
		}
	}
	type binop struct {
		name string
		f    func(z, a, b *big.Int) *big.Int
	}
	ops := []binop{
		{"Add", (*big.Int).Add}, {"Sub", (*big.Int).Sub}, {"Mul", nil}, {"Quo", (*big.Int).Quo}, {"Rem", (*big.Int).Rem},
		{"And", (*big.Int).And}, {"Or", (*big.Int).Or}, {"Xor", (*big.Int).Xor}, {"AndNot", (*big.Int).AndNot},
	}
	for it := 0; it < 3000; it++ {
		a, b := randBig(), randBig()
		for _, op := range ops {
			if op.f == nil {
				continue
			}
			if (op.name == "Quo" || op.name == "Rem") && b.Sign() == 0 {
				continue
			}
			want := op.f(new(big.Int), a, b)
			key := "(*math/big.Int)." + op.name
			z := mk(big.NewInt(0))
			func() {
				defer func() {
					if r := recover(); r != nil {
						if pe, ok := r.(pathEnd); ok && (pe.Kind == "bound" || pe.Kind == "unsupported") {
							return
						}
						report(op.name, a, b, "panic", r)
					}
				}()
				intrinsicTab[key](x, nil, []Value{z, mk(a), mk(b)})
				if got := val(z); got.Cmp(want) != 0 {
					report(op.name, a, b, got, want)
				}
			}()
		}
		// shifts
		k := uint(rng.Intn(80))
		if a.BitLen()+int(k) <= BigW {
			z := mk(big.NewInt(0))
			intrinsicTab["(*math/big.Int).Lsh"](x, nil, []Value{z, mk(a), BVu(uint64(k), 64)})
			if val(z).Cmp(new(big.Int).Lsh(a, k)) != 0 {
				report("Lsh", a, k)
			}
		}
		z := mk(big.NewInt(0))
		intrinsicTab["(*math/big.Int).Rsh"](x, nil, []Value{z, mk(a), BVu(uint64(k), 64)})
		if val(z).Cmp(new(big.Int).Rsh(a, k)) != 0 {
			report("Rsh", a, k)
		}
		// Cmp, Sign, BitLen, Int64, IsInt64, Bit
		if got := asTerm(intrinsicTab["(*math/big.Int).Cmp"](x, nil, []Value{mk(a), mk(b)})).Int64(); int(got) != a.Cmp(b) {
			report("Cmp", a, b, got)
		}
		if got := asTerm(intrinsicTab["(*math/big.Int).Sign"](x, nil, []Value{mk(a)})).Int64(); int(got) != a.Sign() {
			report("Sign", a, got)
		}
		if got := asTerm(intrinsicTab["(*math/big.Int).BitLen"](x, nil, []Value{mk(a)})).Int64(); int(got) != a.BitLen() {
			report("BitLen", a, got)
		}
		if got := asTerm(intrinsicTab["(*math/big.Int).Int64"](x, nil, []Value{mk(a)})).Int64(); got != a.Int64() {
			report("Int64", a, got)
		}
		if got := asTerm(intrinsicTab["(*math/big.Int).IsInt64"](x, nil, []Value{mk(a)})).IsTrue(); got != a.IsInt64() {
			report("IsInt64", a, got)
		}
		bi := rng.Intn(300)
		if got := asTerm(intrinsicTab["(*math/big.Int).Bit"](x, nil, []Value{mk(a), BVi(int64(bi), 64)})).Uint64(); uint(got) != a.Bit(bi) {
			report("Bit", a, bi, got)
		}
		// Bytes / SetBytes / FillBytes
		bs := intrinsicTab["(*math/big.Int).Bytes"](x, nil, []Value{mk(a)}).(SliceV)
		raw := a.Bytes()
		if bs.Len.Int64() != int64(len(raw)) {
			report("Bytes.len", a, bs.Len.Int64(), len(raw))
		} else {
			el := x.sliceElems(bs, "bytes")
			for i := range raw {
				if byte(asTerm(el[i]).Uint64()) != raw[i] {
					report("Bytes", a, i)
					break
				}
			}
		}
		z2 := mk(big.NewInt(0))
		intrinsicTab["(*math/big.Int).SetBytes"](x, nil, []Value{z2, bs})
		if val(z2).Cmp(a) != 0 {
			report("SetBytes(Bytes)", a)
		}
		n := (a.BitLen()+7)/8 + rng.Intn(3)
		buf := &ArrV{Elems: make([]Value, n)}
		for i := range buf.Elems {
			buf.Elems[i] = BVi(0xAA, 8)
		}
		bo := x.newObj("buf", nil, buf)
		intrinsicTab["(*math/big.Int).FillBytes"](x, nil, []Value{mk(a), SliceV{Obj: bo, Off: BVi(0, 64), Len: BVi(int64(n), 64), Cap: BVi(int64(n), 64)}})
		wantb := a.FillBytes(make([]byte, n))
		for i := range wantb {
			if byte(asTerm(bo.Val.(*ArrV).Elems[i]).Uint64()) != wantb[i] {
				report("FillBytes", a, n, i)
				break
			}
		}
		// NewInt / SetInt64 with negative values
		v := rng.Int63() - (1 << 62)
		if got := val(intrinsicTab["math/big.NewInt"](x, nil, []Value{BVi(v, 64)})); got.Cmp(big.NewInt(v)) != 0 {
			report("NewInt", v, got)
		}
	}
	return bad
}
