package main

// Strings as token sequences over interned words (DESIGN §3.6).

import (
	"fmt"
	"sort"
	"strconv"
	"strings"
	"unicode"
	"unicode/utf8"

	"golang.org/x/text/unicode/norm"
)

type AtomKind int

const (
	ALit  AtomKind = iota // concrete whitespace-free text
	ATok                  // token identified by an ID term (BV32)
	ASep                  // one whitespace rune
	AItoa                 // decimal rendering of a signed 64-bit term
	AOpq                  // arbitrary unknown text (name)
	ANorm                 // NFKD of Sub
	APre                  // some text whose NFKD is Sub
)

type Atom struct {
	K   AtomKind
	S   string
	T   *Term
	Sub []Atom
	// provenance of a table-lifted token: ID = Tab[Idx]; lets concrete unary string functions be
	// composed on the table instead of in the solver
	Idx *Term
	Tab []int
	// byte token (verifByteToken): the token's text is these symbolic bytes (each ASCII a-z)
	B []*Term
}

// atomsBytes: the bytes of a text all of whose parts have known length (literals, separators, constant
// or byte tokens); ok=false otherwise. hasB reports whether a byte token occurs.
func (x *Exec) atomsBytes(as []Atom) (bs []*Term, hasB bool, ok bool) {
	for _, a := range as {
		switch {
		case a.K == ALit || a.K == ASep:
			for i := 0; i < len(a.S); i++ {
				bs = append(bs, BVi(int64(a.S[i]), 8))
			}
		case a.K == ATok && a.B != nil:
			bs = append(bs, a.B...)
			hasB = true
		case a.K == ATok && a.T.IsConst():
			str, known := x.in.Str(int(a.T.Uint64()))
			if !known {
				return nil, false, false
			}
			for i := 0; i < len(str); i++ {
				bs = append(bs, BVi(int64(str[i]), 8))
			}
		default:
			return nil, false, false
		}
	}
	return bs, hasB, true
}

// bytesEqConst: the symbolic bytes spell exactly s.
func bytesEqConst(bs []*Term, s string) *Term {
	if len(bs) != len(s) {
		return tFalse
	}
	c := make([]*Term, len(bs))
	for i := range bs {
		c[i] = Eq(bs[i], BVi(int64(s[i]), 8))
	}
	return And(c...)
}

// tabTok builds the token Tab[idx] (idx assumed in range).
func tabTok(idx *Term, tab []int) Atom {
	keys := make([]int, len(tab))
	for i := range keys {
		keys[i] = i
	}
	v, _ := pwApply(keys, tab, idx, IDW, BVi(0, IDW))
	return Atom{K: ATok, T: v, Idx: idx, Tab: tab}
}

type SymStr struct{ A []Atom }

const (
	IDW     = 32
	UnkBase = 1 << 20 // IDs >= UnkBase: tokens that are not any interned string
)

type Interner struct {
	ids  map[string]int
	strs []string
}

func NewInterner(golden []string) *Interner {
	in := &Interner{ids: map[string]int{}}
	for _, w := range golden {
		in.ID(w)
	}
	return in
}

func (in *Interner) ID(s string) int {
	if id, ok := in.ids[s]; ok {
		return id
	}
	id := len(in.strs)
	if id >= UnkBase {
		panic("interner overflow")
	}
	in.ids[s] = id
	in.strs = append(in.strs, s)
	return id
}

func (in *Interner) Str(id int) (string, bool) {
	if id >= 0 && id < len(in.strs) {
		return in.strs[id], true
	}
	return "", false
}

func isWS(r rune) bool { return unicode.IsSpace(r) }

func hasWS(s string) bool {
	for _, r := range s {
		if isWS(r) {
			return true
		}
	}
	return false
}

// atomsOfString splits a concrete string into ALit / ASep atoms.
func atomsOfString(s string) []Atom {
	var out []Atom
	start := -1
	for i, r := range s {
		if isWS(r) && r != utf8.RuneError {
			if start >= 0 {
				out = append(out, Atom{K: ALit, S: s[start:i]})
				start = -1
			}
			out = append(out, Atom{K: ASep, S: string(r)})
		} else if start < 0 {
			start = i
		}
	}
	if start >= 0 {
		out = append(out, Atom{K: ALit, S: s[start:]})
	}
	return out
}

func toAtoms(v Value) []Atom {
	switch s := v.(type) {
	case string:
		return atomsOfString(s)
	case *SymStr:
		return s.A
	}
	panic(unsupported(fmt.Sprintf("not a string value: %T", v)))
}

// mkStr normalises an atom list: merges adjacent literals, folds constant
// tokens/itoa, and returns a Go string when fully concrete.
func (x *Exec) mkStr(as []Atom) Value {
	var out []Atom
	push := func(a Atom) {
		if a.K == ALit {
			if a.S == "" {
				return
			}
			if n := len(out); n > 0 && out[n-1].K == ALit {
				out[n-1].S += a.S
				return
			}
		}
		out = append(out, a)
	}
	for _, a := range as {
		switch a.K {
		case ATok:
			if a.T.IsConst() {
				if s, ok := x.in.Str(int(a.T.Uint64())); ok {
					for _, b := range atomsOfString(s) {
						push(b)
					}
					continue
				}
			}
			push(a)
		case AItoa:
			if a.T.IsConst() {
				push(Atom{K: ALit, S: strconv.FormatInt(a.T.Int64(), 10)})
				continue
			}
			push(a)
		default:
			push(a)
		}
	}
	conc := true
	for _, a := range out {
		if a.K != ALit && a.K != ASep {
			conc = false
			break
		}
	}
	if conc {
		var sb strings.Builder
		for _, a := range out {
			sb.WriteString(a.S)
		}
		return sb.String()
	}
	return &SymStr{A: out}
}

func (x *Exec) strConcat(a, b Value) Value {
	if sa, ok := a.(string); ok {
		if sb, ok := b.(string); ok {
			return sa + sb
		}
	}
	as := append(append([]Atom{}, toAtoms(a)...), toAtoms(b)...)
	return x.mkStr(as)
}

// splitTokens cuts at every ASep; returns tokens (atom lists) and the separators between them.
func splitTokens(as []Atom) (toks [][]Atom, seps []string) {
	cur := []Atom{}
	for _, a := range as {
		if a.K == ASep {
			toks = append(toks, cur)
			seps = append(seps, a.S)
			cur = []Atom{}
		} else {
			cur = append(cur, a)
		}
	}
	toks = append(toks, cur)
	return
}

func simpleAtoms(as []Atom) bool {
	for _, a := range as {
		if a.K == AOpq || a.K == ANorm || a.K == APre {
			return false
		}
	}
	return true
}

// tokenID returns the ID term of a token consisting of nothing, one literal or one ATok.
func (x *Exec) tokenID(tok []Atom) (*Term, bool) {
	switch len(tok) {
	case 0:
		return BVi(int64(x.in.ID("")), IDW), true
	case 1:
		switch tok[0].K {
		case ALit:
			return BVi(int64(x.in.ID(tok[0].S)), IDW), true
		case ATok:
			return tok[0].T, true
		}
	}
	return nil, false
}

func atomsIdentical(a, b []Atom) bool {
	if len(a) != len(b) {
		return false
	}
	for i := range a {
		if a[i].K != b[i].K || a[i].S != b[i].S || a[i].T != b[i].T || len(a[i].B) != len(b[i].B) || !atomsIdentical(a[i].Sub, b[i].Sub) {
			return false
		}
	}
	return true
}

// strEq returns a Bool term for a == b.
func (x *Exec) strEq(a, b Value) *Term {
	if sa, ok := a.(string); ok {
		if sb, ok := b.(string); ok {
			return Bool(sa == sb)
		}
	}
	aa, ba := toAtoms(a), toAtoms(b)
	if atomsIdentical(aa, ba) {
		return tTrue
	}
	if ab, ha, ok := x.atomsBytes(aa); ok {
		if bb, hb, ok := x.atomsBytes(ba); ok && (ha || hb) {
			if len(ab) != len(bb) {
				return tFalse
			}
			c := make([]*Term, len(ab))
			for i := range ab {
				c[i] = Eq(ab[i], bb[i])
			}
			return And(c...)
		}
	}
	if !simpleAtoms(aa) || !simpleAtoms(ba) {
		// a single opaque text compared with the empty string: its emptiness is a free Boolean
		if len(ba) == 0 && len(aa) == 1 && aa[0].K == AOpq {
			return x.opqEmptyVar(aa[0].S)
		}
		if len(aa) == 0 && len(ba) == 1 && ba[0].K == AOpq {
			return x.opqEmptyVar(ba[0].S)
		}
		return x.imprecise("string comparison over opaque text")
	}
	ta, sa := splitTokens(aa)
	tb, sb := splitTokens(ba)
	if len(ta) != len(tb) {
		return tFalse
	}
	for i := range sa {
		if sa[i] != sb[i] {
			return tFalse
		}
	}
	conj := []*Term{}
	for i := range ta {
		c := x.tokEq(ta[i], tb[i])
		if c.IsFalse() {
			return tFalse
		}
		conj = append(conj, c)
	}
	return And(conj...)
}

func (x *Exec) tokEq(a, b []Atom) *Term {
	ia, oka := x.tokenID(a)
	ib, okb := x.tokenID(b)
	if oka && okb {
		return Eq(ia, ib)
	}
	if atomsIdentical(a, b) {
		return tTrue
	}
	// same shape: literal/itoa/tok pairwise
	if len(a) == len(b) {
		same := true
		for i := range a {
			if a[i].K != b[i].K {
				same = false
				break
			}
		}
		if same {
			conj := []*Term{}
			for i := range a {
				switch a[i].K {
				case ALit:
					if a[i].S != b[i].S {
						// literals of different text in an otherwise aligned shape: could still be equal
						// only if itoa digits shift; treat conservatively unless itoa-free
						if !hasItoaOrTok(a) {
							return tFalse
						}
						return x.imprecise("literal misalignment in string comparison")
					}
				case AItoa, ATok:
					conj = append(conj, Eq(a[i].T, b[i].T))
				}
			}
			return And(conj...)
		}
	}
	// concrete literal vs [Lit p][Itoa t][Lit s]
	if len(a) == 1 && a[0].K == ALit {
		return x.litVsShape(a[0].S, b)
	}
	if len(b) == 1 && b[0].K == ALit {
		return x.litVsShape(b[0].S, a)
	}
	// first-literal prefix mismatch
	if len(a) > 0 && len(b) > 0 && a[0].K == ALit && b[0].K == ALit {
		p, q := a[0].S, b[0].S
		if !strings.HasPrefix(p, q) && !strings.HasPrefix(q, p) {
			return tFalse
		}
	}
	return x.imprecise("token comparison of unlike shapes")
}

func hasItoaOrTok(as []Atom) bool {
	for _, a := range as {
		if a.K == AItoa || a.K == ATok {
			return true
		}
	}
	return false
}

// litVsShape compares a concrete token with a composite one.
func (x *Exec) litVsShape(lit string, sh []Atom) *Term {
	if len(sh) == 0 {
		return Bool(lit == "")
	}
	// shape: optional Lit prefix, one Itoa, optional Lit suffix
	pre, suf := "", ""
	i := 0
	if sh[i].K == ALit {
		pre = sh[i].S
		i++
	}
	if i < len(sh) && sh[i].K == AItoa {
		it := sh[i].T
		i++
		if i < len(sh) && sh[i].K == ALit {
			suf = sh[i].S
			i++
		}
		if i == len(sh) {
			if !strings.HasPrefix(lit, pre) || !strings.HasSuffix(lit, suf) || len(lit) < len(pre)+len(suf) {
				return tFalse
			}
			mid := lit[len(pre) : len(lit)-len(suf)]
			v, err := strconv.ParseInt(mid, 10, 64)
			if err != nil || strconv.FormatInt(v, 10) != mid {
				return tFalse
			}
			return Eq(it, BVi(v, 64))
		}
	}
	if sh[0].K == ALit && !strings.HasPrefix(lit, sh[0].S) {
		return tFalse
	}
	if n := len(sh); sh[n-1].K == ALit && !strings.HasSuffix(lit, sh[n-1].S) {
		return tFalse
	}
	return x.imprecise("literal vs composite token")
}

// ---- piecewise-affine tables over IDs (identity + exceptions normal form)

type pwRun struct {
	lo, hi int // keys lo..hi (consecutive)
	delta  int // val = key + delta
}

func pwRuns(keys, vals []int) []pwRun {
	idx := make([]int, len(keys))
	for i := range idx {
		idx[i] = i
	}
	sort.Slice(idx, func(a, b int) bool { return keys[idx[a]] < keys[idx[b]] })
	var runs []pwRun
	for _, i := range idx {
		k, v := keys[i], vals[i]
		if n := len(runs); n > 0 && runs[n-1].hi+1 == k && runs[n-1].delta == v-k {
			runs[n-1].hi = k
			continue
		}
		runs = append(runs, pwRun{k, k, v - k})
	}
	return runs
}

// pwApply builds (value, inDomain) for the partial function keys->vals at key term k (BV kw),
// value width vw. dflt is used outside the domain.
func pwApply(keys, vals []int, k *Term, vw int, dflt *Term) (*Term, *Term) {
	runs := pwRuns(keys, vals)
	kw := k.W
	val := dflt
	in := tFalse
	// build from last to first so the chain tests runs in key order
	for i := len(runs) - 1; i >= 0; i-- {
		r := runs[i]
		var c *Term
		if r.lo == r.hi {
			c = Eq(k, BVi(int64(r.lo), kw))
		} else {
			c = And(Ule(BVi(int64(r.lo), kw), k), Ule(k, BVi(int64(r.hi), kw)))
		}
		v := Add(Resize(k, vw, false), BVi(int64(r.delta), vw))
		val = Ite(c, v, val)
		in = Or(c, in)
	}
	return val, in
}

// ---- NFKD

func (x *Exec) nfkdAtoms(as []Atom) []Atom {
	var out []Atom
	for _, a := range as {
		switch a.K {
		case ALit, ASep:
			out = append(out, atomsOfString(norm.NFKD.String(a.S))...)
		case ATok:
			if a.B != nil {
				out = append(out, a) // ASCII letters: NFKD-stable
			} else if a.Tab != nil && !a.T.IsConst() {
				out = append(out, x.liftTok(a, func(s string) string { return norm.NFKD.String(s) }, "NFKD"))
			} else {
				out = append(out, x.nfkdTok(a.T)...)
			}
		case AItoa, ANorm:
			out = append(out, a)
		case AOpq:
			out = append(out, Atom{K: ANorm, Sub: []Atom{a}})
		case APre:
			out = append(out, a.Sub...)
		}
	}
	return out
}

// liftTok applies a concrete string function to a table-lifted token by mapping it over the table.
func (x *Exec) liftTok(a Atom, f func(string) string, what string) Atom {
	nt := make([]int, len(a.Tab))
	for i, id := range a.Tab {
		s, _ := x.in.Str(id)
		r := f(s)
		if hasWS(r) {
			x.requireInfeasible(Eq(a.Idx, BVi(int64(i), a.Idx.W)), what+" of list entry introduces whitespace: "+strconv.Quote(s))
			nt[i] = id
			continue
		}
		nt[i] = x.in.ID(r)
	}
	return tabTok(a.Idx, nt)
}

// nfkdTok lifts NFKD over the interned table for a symbolic token ID.
func (x *Exec) nfkdTok(id *Term) []Atom {
	if id.IsConst() {
		if s, ok := x.in.Str(int(id.Uint64())); ok {
			return atomsOfString(norm.NFKD.String(s))
		}
		return []Atom{{K: ATok, T: id}} // unknown tokens are NFKD-stable by contract
	}
	// fixpoint: interning NFKD images may add strings
	var keys, vals []int
	for i := 0; i < len(x.in.strs); i++ {
		s := x.in.strs[i]
		n := norm.NFKD.String(s)
		if hasWS(n) != hasWS(s) || (hasWS(n) && n != s) {
			// image changes tokenisation: only allowed if this id is infeasible here
			x.requireInfeasible(Eq(id, BVi(int64(i), IDW)), "NFKD of interned string changes tokenisation: "+strconv.Quote(s))
			continue
		}
		keys = append(keys, i)
		vals = append(vals, x.in.ID(n))
	}
	v, _ := pwApply(keys, vals, id, IDW, id)
	return []Atom{{K: ATok, T: v}}
}

func (x *Exec) strNFKD(v Value) Value {
	if s, ok := v.(string); ok {
		return norm.NFKD.String(s)
	}
	return x.mkStr(x.nfkdAtoms(toAtoms(v)))
}

// ---- split / join / contains

func (x *Exec) strSplit(v Value, sep string) []Value {
	if s, ok := v.(string); ok {
		parts := strings.Split(s, sep)
		out := make([]Value, len(parts))
		for i, p := range parts {
			out[i] = p
		}
		return out
	}
	r, n := utf8.DecodeRuneInString(sep)
	if n != len(sep) || !isWS(r) {
		panic(unsupported("strings.Split of symbolic text on non-whitespace separator " + strconv.Quote(sep)))
	}
	as := toAtoms(v)
	if !simpleAtoms(as) {
		panic(unsupported("strings.Split of opaque text"))
	}
	var out []Value
	cur := []Atom{}
	for _, a := range as {
		if a.K == ASep && a.S == sep {
			out = append(out, x.mkStr(cur))
			cur = []Atom{}
		} else {
			cur = append(cur, a)
		}
	}
	out = append(out, x.mkStr(cur))
	return out
}

// strFields: whitespace-separated non-empty tokens. Tokens with symbolic ID may be empty: fork.
func (x *Exec) strFields(v Value) []Value {
	if s, ok := v.(string); ok {
		parts := strings.Fields(s)
		out := make([]Value, len(parts))
		for i, p := range parts {
			out[i] = p
		}
		return out
	}
	as := toAtoms(v)
	if !simpleAtoms(as) {
		panic(unsupported("strings.Fields of opaque text"))
	}
	toks, _ := splitTokens(as)
	var out []Value
	for _, t := range toks {
		if len(t) == 0 {
			continue
		}
		if len(t) == 1 && t[0].K == ATok {
			empty := Eq(t[0].T, BVi(int64(x.in.ID("")), IDW))
			if x.branch(empty) {
				continue
			}
		}
		out = append(out, x.mkStr(t))
	}
	return out
}

func (x *Exec) strJoin(parts []Value, sep Value) Value {
	allc := true
	for _, p := range parts {
		if _, ok := p.(string); !ok {
			allc = false
		}
	}
	if s, ok := sep.(string); ok && allc {
		ss := make([]string, len(parts))
		for i, p := range parts {
			ss[i] = p.(string)
		}
		return strings.Join(ss, s)
	}
	var as []Atom
	for i, p := range parts {
		if i > 0 {
			as = append(as, toAtoms(sep)...)
		}
		as = append(as, toAtoms(p)...)
	}
	return x.mkStr(as)
}

// strContains under-approximates strings.Contains(s, sub) on symbolic text:
// true if sub is empty, or some ATok atom of s has sub's ID, or (concrete sub) a literal contains it.
func (x *Exec) strContains(s, sub Value) *Term {
	if a, ok := s.(string); ok {
		if b, ok := sub.(string); ok {
			return Bool(strings.Contains(a, b))
		}
	}
	sa := toAtoms(sub)
	if len(sa) == 0 {
		return tTrue
	}
	id, ok := x.tokenID(sa)
	if !ok {
		return x.imprecise("strings.Contains with composite needle")
	}
	ors := []*Term{Eq(id, BVi(int64(x.in.ID("")), IDW))}
	for _, a := range toAtoms(s) {
		switch a.K {
		case ATok:
			ors = append(ors, Eq(a.T, id))
		case ALit:
			if id.IsConst() {
				if str, ok := x.in.Str(int(id.Uint64())); ok && strings.Contains(a.S, str) {
					return tTrue
				}
			}
		}
	}
	return Or(ors...)
}

func (s *SymStr) String() string { return renderAtoms(s.A) }

func renderAtoms(as []Atom) string {
	var sb strings.Builder
	for _, a := range as {
		switch a.K {
		case ALit:
			sb.WriteString(a.S)
		case ASep:
			sb.WriteString(a.S)
		case ATok:
			fmt.Fprintf(&sb, "<tok %s>", a.T.ref())
		case AItoa:
			fmt.Fprintf(&sb, "<itoa %s>", a.T.ref())
		case AOpq:
			fmt.Fprintf(&sb, "<%s>", a.S)
		case ANorm:
			fmt.Fprintf(&sb, "NFKD(%s)", renderAtoms(a.Sub))
		case APre:
			fmt.Fprintf(&sb, "PRE(%s)", renderAtoms(a.Sub))
		}
	}
	return sb.String()
}

// ---- binary string predicates lifted over tables (HasPrefix / HasSuffix / Contains of tokens)

// tokTable returns (index term, table of interned IDs) describing a single-token string, or ok=false.
func (x *Exec) tokTable(tok []Atom) (*Term, []int, bool) {
	if len(tok) != 1 {
		if len(tok) == 0 {
			return BVi(0, 64), []int{x.in.ID("")}, true
		}
		return nil, nil, false
	}
	a := tok[0]
	switch a.K {
	case ALit:
		return BVi(0, 64), []int{x.in.ID(a.S)}, true
	case ATok:
		if a.Tab != nil {
			return a.Idx, a.Tab, true
		}
		ids := make([]int, len(x.in.strs))
		for i := range ids {
			ids[i] = i
		}
		return a.T, ids, true
	}
	return nil, nil, false
}

func (x *Exec) tokPred2(f func(a, b string) bool, ta, tb []Atom, what string) *Term {
	ia, taba, oka := x.tokTable(ta)
	ib, tabb, okb := x.tokTable(tb)
	if !oka || !okb {
		return x.imprecise(what + " on composite tokens")
	}
	var ors []*Term
	n := 0
	for i, ida := range taba {
		sa, _ := x.in.Str(ida)
		var js []int
		for j, idb := range tabb {
			sb, _ := x.in.Str(idb)
			if f(sa, sb) {
				js = append(js, j)
			}
		}
		if len(js) == 0 {
			continue
		}
		n += len(js)
		if n > 60000 {
			panic(unsupported(what + ": relation too dense to lift"))
		}
		var inner []*Term
		if len(js) == len(tabb) {
			inner = []*Term{tTrue}
		} else {
			for _, j := range js {
				inner = append(inner, Eq(ib, BVi(int64(j), ib.W)))
			}
		}
		ors = append(ors, And(Eq(ia, BVi(int64(i), ia.W)), Or(inner...)))
	}
	r := Or(ors...)
	// tokens that are no interned string (IDs beyond the table): unknown relation
	unkA := tTrue
	if ta != nil && len(ta) == 1 && ta[0].K == ATok && ta[0].Tab == nil {
		unkA = Ult(ia, BVi(int64(len(taba)), ia.W))
	}
	unkB := tTrue
	if tb != nil && len(tb) == 1 && tb[0].K == ATok && tb[0].Tab == nil {
		unkB = Ult(ib, BVi(int64(len(tabb)), ib.W))
	}
	known := And(unkA, unkB)
	if known.IsTrue() {
		return r
	}
	return Ite(known, r, x.fresh("strpred", 0))
}

func (x *Exec) strAffix(s, sub Value, suffix bool) *Term {
	name := "strings.HasPrefix"
	f := strings.HasPrefix
	if suffix {
		name, f = "strings.HasSuffix", strings.HasSuffix
	}
	if a, ok := s.(string); ok {
		if b, ok := sub.(string); ok {
			return Bool(f(a, b))
		}
	}
	sa, ba := toAtoms(s), toAtoms(sub)
	if !simpleAtoms(sa) || !simpleAtoms(ba) {
		panic(unsupported(name + " on opaque text"))
	}
	stoks, _ := splitTokens(sa)
	btoks, bseps := splitTokens(ba)
	if len(bseps) > 0 {
		panic(unsupported(name + " with a needle spanning several tokens"))
	}
	tok := stoks[0]
	if suffix {
		tok = stoks[len(stoks)-1]
	}
	// an empty needle always matches; a non-empty whitespace-free needle can only match inside the edge token
	return x.tokPred2(f, tok, btoks[0], name)
}
