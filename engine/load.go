package main

import (
	"crypto/sha256"
	"encoding/hex"
	"fmt"
	"go/types"
	"os"
	"path/filepath"
	"sort"
	"strings"

	"golang.org/x/tools/go/packages"
	"golang.org/x/tools/go/ssa"
	"golang.org/x/tools/go/ssa/ssautil"
)

type Program struct {
	Prog     *ssa.Program
	Pkg      *ssa.Package // the package under test (bip39)
	Pkgs     []*packages.Package
	RepoDir  string
	SrcHash  map[string]string // repo source file -> sha256
	WordPkg  *ssa.Package
	AllFuncs map[string]*ssa.Function
}

const harnessVirtualName = "zz_verif_harness.go"

func repoDir() string {
	if d := os.Getenv("VERIF_REPO"); d != "" {
		return d
	}
	return "/repo"
}

func verifDir() string {
	if d := os.Getenv("VERIF_DIR"); d != "" {
		return d
	}
	exe, err := os.Executable()
	if err == nil {
		d := filepath.Dir(filepath.Dir(exe))
		if _, err := os.Stat(filepath.Join(d, "harness")); err == nil {
			return d
		}
	}
	return "/verif"
}

func evidenceDir() string {
	if d := os.Getenv("VERIF_EVIDENCE_DIR"); d != "" {
		return d
	}
	return filepath.Join(verifDir(), "evidence")
}

func LoadProgram() (*Program, error) {
	dir := repoDir()
	src, err := harnessSource()
	if err != nil {
		return nil, err
	}
	cfg := &packages.Config{
		Mode:       packages.LoadAllSyntax,
		Dir:        dir,
		BuildFlags: []string{"-tags=verif", "-mod=mod"},
		Env:        append(os.Environ(), "GOFLAGS=-mod=mod", "GOPROXY=off", "GOSUMDB=off", "GOTOOLCHAIN=local"),
		Overlay: map[string][]byte{
			filepath.Join(dir, harnessVirtualName): src,
		},
	}
	pkgs, err := packages.Load(cfg, ".")
	if err != nil {
		return nil, err
	}
	if n := packages.PrintErrors(pkgs); n > 0 {
		return nil, fmt.Errorf("package load: %d errors", n)
	}
	prog, spkgs := ssautil.AllPackages(pkgs, ssa.InstantiateGenerics)
	prog.Build()
	p := &Program{Prog: prog, Pkg: spkgs[0], Pkgs: pkgs, RepoDir: dir, SrcHash: map[string]string{}, AllFuncs: map[string]*ssa.Function{}}
	if p.Pkg == nil {
		return nil, fmt.Errorf("no ssa package")
	}
	for _, sp := range prog.AllPackages() {
		if strings.HasSuffix(sp.Pkg.Path(), "/internal/wordlist") {
			p.WordPkg = sp
		}
	}
	// source hashes of the repo files (everything under dir that is part of the loaded packages)
	packages.Visit(pkgs, nil, func(pk *packages.Package) {
		for _, f := range pk.GoFiles {
			if strings.HasPrefix(f, dir+"/") && filepath.Base(f) != harnessVirtualName {
				if b, err := os.ReadFile(f); err == nil {
					h := sha256.Sum256(b)
					p.SrcHash[strings.TrimPrefix(f, dir+"/")] = hex.EncodeToString(h[:8])
				}
			}
		}
	})
	return p, nil
}

func (p *Program) Func(name string) *ssa.Function {
	if f := p.Pkg.Func(name); f != nil {
		return f
	}
	return nil
}

func (p *Program) Method(typeName, method string) *ssa.Function {
	obj := p.Pkg.Pkg.Scope().Lookup(typeName)
	if obj == nil {
		return nil
	}
	t := obj.Type()
	ms := p.Prog.MethodSets.MethodSet(t)
	for i := 0; i < ms.Len(); i++ {
		if ms.At(i).Obj().Name() == method {
			return p.Prog.MethodValue(ms.At(i))
		}
	}
	ms = p.Prog.MethodSets.MethodSet(types.NewPointer(t))
	for i := 0; i < ms.Len(); i++ {
		if ms.At(i).Obj().Name() == method {
			return p.Prog.MethodValue(ms.At(i))
		}
	}
	return nil
}

func (p *Program) SrcHashList() []string {
	var out []string
	for f, h := range p.SrcHash {
		out = append(out, f+":"+h)
	}
	sort.Strings(out)
	return out
}

func funcPath(f *ssa.Function) string {
	if f == nil {
		return "<nil>"
	}
	return f.String()
}
