package main

// Native replay: the harness compiled into the real package with `go test -overlay`,
// fed with the solver's assignment (DESIGN §6.3, §6.4).

import (
	"context"
	"encoding/json"
	"fmt"
	"go/ast"
	"go/parser"
	"go/token"
	"os"
	"os/exec"
	"path/filepath"
	"sort"
	"strings"
	"sync"
	"time"
)

// discoverReader finds the package-level randomness source variable of the repository package.
func discoverReader(dir string) string {
	fset := token.NewFileSet()
	pkgs, err := parser.ParseDir(fset, dir, func(fi os.FileInfo) bool {
		return !strings.HasSuffix(fi.Name(), "_test.go") && !strings.HasPrefix(fi.Name(), "zz_verif")
	}, 0)
	if err != nil {
		return ""
	}
	var cands []string
	for _, p := range pkgs {
		var files []string
		for f := range p.Files {
			files = append(files, f)
		}
		sort.Strings(files)
		for _, fname := range files {
			f := p.Files[fname]
			for _, d := range f.Decls {
				gd, ok := d.(*ast.GenDecl)
				if !ok || gd.Tok != token.VAR {
					continue
				}
				for _, sp := range gd.Specs {
					vs := sp.(*ast.ValueSpec)
					isReader := false
					if se, ok := vs.Type.(*ast.SelectorExpr); ok {
						if id, ok := se.X.(*ast.Ident); ok && id.Name == "io" && se.Sel.Name == "Reader" {
							isReader = true
						}
					}
					for _, v := range vs.Values {
						if se, ok := v.(*ast.SelectorExpr); ok {
							if id, ok := se.X.(*ast.Ident); ok && id.Name == "rand" && se.Sel.Name == "Reader" {
								isReader = true
							}
						}
					}
					if isReader && len(vs.Names) == 1 {
						cands = append(cands, vs.Names[0].Name)
					}
				}
			}
		}
	}
	if len(cands) == 0 {
		return ""
	}
	return cands[0]
}

var readerName string

func harnessSource() ([]byte, error) {
	b, err := os.ReadFile(filepath.Join(verifDir(), "harness", "harness.go"))
	if err != nil {
		return nil, err
	}
	readerName = discoverReader(repoDir())
	name := readerName
	src := string(b)
	if name == "" {
		// no swappable source in the package: harnesses that need one bind a dummy
		name = "verifNoSource"
		src += "\nvar verifNoSource io.Reader = rand.Reader\n"
	}
	return []byte(strings.ReplaceAll(src, "{{READER}}", name)), nil
}

const replayTestSrc = `package bip39

import (
	"encoding/json"
	"os"
	"strings"
	"testing"
)

func TestVerifReplay(t *testing.T) {
	for _, f := range strings.Split(os.Getenv("VERIF_VECTORS"), ":") {
		if f == "" {
			continue
		}
		data, err := os.ReadFile(f)
		if err != nil {
			t.Fatal(err)
		}
		res := VerifRun(data)
		out, _ := json.Marshal(res)
		if err := os.WriteFile(f+".out", out, 0644); err != nil {
			t.Fatal(err)
		}
		if len(res.Failures) > 0 || res.Panic != "" {
			t.Logf("%s: failures=%v panic=%q", f, res.Failures, res.Panic)
		}
	}
}
`

type Vector struct {
	Harness  string                 `json:"harness"`
	Args     []int64                `json:"args"`
	Vals     map[string]interface{} `json:"vals"`
	Property string                 `json:"property,omitempty"`
	Label    string                 `json:"label,omitempty"`
	Kind     string                 `json:"kind,omitempty"`
	Predict  map[string]string      `json:"predicted,omitempty"`
	Note     string                 `json:"note,omitempty"`
}

type NativeResult struct {
	Failures []string          `json:"failures"`
	Reached  []string          `json:"reached"`
	Observed map[string]string `json:"observed"`
	Panic    string            `json:"panic"`
	Assumed  bool              `json:"assume_failed"`
}

type Replayer struct {
	mu    sync.Mutex
	dir   string
	bin   string
	built bool
	err   error
	race  bool
}

func NewReplayer(tmp string) *Replayer { return &Replayer{dir: tmp} }

func goEnv() []string {
	return append(os.Environ(), "GOFLAGS=-mod=mod", "GOPROXY=off", "GOSUMDB=off", "GOTOOLCHAIN=local")
}

func (r *Replayer) build() error {
	r.mu.Lock()
	defer r.mu.Unlock()
	if r.built {
		return r.err
	}
	r.built = true
	src, err := harnessSource()
	if err != nil {
		r.err = err
		return err
	}
	hp := filepath.Join(r.dir, "harness.go")
	tp := filepath.Join(r.dir, "replay_test.go")
	os.WriteFile(hp, src, 0644)
	os.WriteFile(tp, []byte(replayTestSrc), 0644)
	ov := map[string]map[string]string{"Replace": {
		filepath.Join(repoDir(), harnessVirtualName):        hp,
		filepath.Join(repoDir(), "zz_verif_replay_test.go"): tp,
	}}
	ob, _ := json.Marshal(ov)
	op := filepath.Join(r.dir, "overlay.json")
	os.WriteFile(op, ob, 0644)
	r.bin = filepath.Join(r.dir, "replay.test")
	args := []string{"test", "-c", "-vet=off", "-tags=verif", "-overlay", op, "-o", r.bin}
	if r.race {
		args = append(args, "-race")
	}
	args = append(args, ".")
	cmd := exec.Command("go", args...)
	cmd.Dir = repoDir()
	cmd.Env = goEnv()
	out, err := cmd.CombinedOutput()
	if err != nil {
		r.err = fmt.Errorf("native harness build failed: %v\n%s", err, out)
	}
	return r.err
}

// runNative runs the replay binary on the given vector files with a wall-clock limit.
func (r *Replayer) runNative(files []string, env []string, limit time.Duration) ([]byte, error) {
	ctx, cancel := context.WithTimeout(context.Background(), limit)
	defer cancel()
	cmd := exec.CommandContext(ctx, r.bin, "-test.run", "TestVerifReplay", "-test.count=1", "-test.timeout=0")
	cmd.Dir = repoDir()
	cmd.Env = append(append(goEnv(), env...), "VERIF_VECTORS="+strings.Join(files, ":"), "VERIF_GOLDEN="+filepath.Join(verifDir(), "golden"))
	cmd.WaitDelay = 2 * time.Second
	return cmd.CombinedOutput()
}

// collect reads result files; vectors without a result are re-run alone with a short limit, and a
// vector that still produces nothing is reported as a hang (or crash) of the native call.
func (r *Replayer) collect(files []string, idx []int, out []*NativeResult, batchOut []byte) error {
	hangs := 0
	for k, i := range idx {
		rb, rerr := os.ReadFile(files[k] + ".out")
		if rerr != nil && hangs >= 3 {
			// three hanging inputs are evidence enough; the rest of this batch is not run alone
			out[i] = &NativeResult{Assumed: true}
			continue
		}
		if rerr != nil {
			hangs++
			b, _ := r.runNative([]string{files[k]}, nil, 20*time.Second)
			rb, rerr = os.ReadFile(files[k] + ".out")
			if rerr == nil {
				hangs--
			}
			if rerr != nil {
				msg := "hang: the native call did not return within 20s"
				if strings.Contains(string(b), "panic:") || strings.Contains(string(b), "fatal error:") {
					msg = "crash: " + firstLines(string(b), 6)
				} else if strings.Contains(string(b), "cannot") || strings.Contains(string(b), "no such file") {
					return fmt.Errorf("native replay run failed: %s\n%s", firstLines(string(b), 10), firstLines(string(batchOut), 10))
				}
				out[i] = &NativeResult{Panic: msg}
				continue
			}
		}
		var nr NativeResult
		if jerr := json.Unmarshal(rb, &nr); jerr != nil {
			return jerr
		}
		out[i] = &nr
	}
	return nil
}

// Run executes the vectors natively (one process) and returns results in order.
func (r *Replayer) Run(vecs []*Vector) ([]*NativeResult, error) {
	if err := r.build(); err != nil {
		return nil, err
	}
	r.mu.Lock()
	defer r.mu.Unlock()
	var files []string
	for i, v := range vecs {
		p := filepath.Join(r.dir, fmt.Sprintf("vec-%d.json", i))
		b, _ := json.Marshal(v)
		os.WriteFile(p, b, 0644)
		os.Remove(p + ".out")
		files = append(files, p)
	}
	out := make([]*NativeResult, len(vecs))
	// vectors that fix process environment variables run in their own process (package init sees them)
	var plain []int
	for i, v := range vecs {
		var env []string
		for k, val := range v.Vals {
			if strings.HasPrefix(k, "env:") {
				s, _ := val.(string)
				if s == "@FILE" {
					fp := filepath.Join(r.dir, fmt.Sprintf("envfile-%d.bin", i))
					buf := make([]byte, 64)
					for j := range buf {
						buf[j] = byte(7*j + 3)
					}
					os.WriteFile(fp, buf, 0644)
					s = fp
				}
				env = append(env, strings.TrimPrefix(k, "env:")+"="+s)
			}
		}
		if env == nil {
			plain = append(plain, i)
			continue
		}
		cmd := exec.Command(r.bin, "-test.run", "TestVerifReplay", "-test.count=1")
		cmd.Dir = repoDir()
		cmd.Env = append(append(goEnv(), env...), "VERIF_VECTORS="+files[i], "VERIF_GOLDEN="+filepath.Join(verifDir(), "golden"))
		b, err := cmd.CombinedOutput()
		rb, rerr := os.ReadFile(files[i] + ".out")
		if rerr != nil {
			return nil, fmt.Errorf("native replay (with environment %v) produced no result: %v\n%s", env, err, b)
		}
		var nr NativeResult
		if jerr := json.Unmarshal(rb, &nr); jerr != nil {
			return nil, jerr
		}
		out[i] = &nr
	}
	for lo := 0; lo < len(plain); lo += 200 {
		hi := lo + 200
		if hi > len(plain) {
			hi = len(plain)
		}
		var pf []string
		for _, i := range plain[lo:hi] {
			pf = append(pf, files[i])
		}
		b, _ := r.runNative(pf, nil, 90*time.Second)
		if err := r.collect(pf, plain[lo:hi], out, b); err != nil {
			return nil, err
		}
		// once a hang (or crash) of the native call is established, the remaining batches are not needed
		stop := false
		for _, i := range plain[lo:hi] {
			if out[i] != nil && (strings.HasPrefix(out[i].Panic, "hang:") || strings.HasPrefix(out[i].Panic, "crash:")) {
				stop = true
			}
		}
		if stop {
			for _, i := range plain[hi:] {
				out[i] = &NativeResult{Assumed: true}
			}
			break
		}
	}
	return out, nil
}

func osMkdirAll(p string) { os.MkdirAll(p, 0755) }

func writeJSON(path string, v interface{}) {
	b, _ := json.MarshalIndent(v, "", " ")
	os.WriteFile(path, b, 0644)
}

func firstLines(s string, n int) string {
	ls := strings.Split(s, "\n")
	if len(ls) > n {
		ls = ls[:n]
	}
	return strings.Join(ls, " | ")
}

// RunRace runs one vector in `runs` fresh processes of the -race build (cold start each time).
func (r *Replayer) RunRace(v *Vector, runs int) (raced bool, failures []string, output string, err error) {
	if err := r.build(); err != nil {
		return false, nil, "", err
	}
	p := filepath.Join(r.dir, "race-vec.json")
	b, _ := json.Marshal(v)
	os.WriteFile(p, b, 0644)
	for i := 0; i < runs; i++ {
		os.Remove(p + ".out")
		ctx, cancel := context.WithTimeout(context.Background(), 45*time.Second)
		cmd := exec.CommandContext(ctx, r.bin, "-test.run", "TestVerifReplay", "-test.count=1", "-test.timeout=0")
		cmd.Dir = repoDir()
		cmd.Env = append(goEnv(), "VERIF_VECTORS="+p, "VERIF_GOLDEN="+filepath.Join(verifDir(), "golden"), "GORACE=halt_on_error=0")
		cmd.WaitDelay = 2 * time.Second
		out, _ := cmd.CombinedOutput()
		timedOut := ctx.Err() != nil
		cancel()
		if timedOut {
			// the concurrent calls did not all return: a hang (deadlock / lost wake-up)
			failures = append(failures, "concurrent-calls-hang: not all goroutines returned within 45s")
			output = string(out)
			return
		}
		if strings.Contains(string(out), "DATA RACE") {
			raced = true
			output = string(out)
		}
		if rb, rerr := os.ReadFile(p + ".out"); rerr == nil {
			var nr NativeResult
			if json.Unmarshal(rb, &nr) == nil {
				if len(nr.Failures) > 0 || nr.Panic != "" {
					failures = append(nr.Failures, nr.Panic)
					if output == "" {
						output = string(out)
					}
				}
			}
		} else if !raced {
			return false, nil, string(out), fmt.Errorf("race replay produced no result: %s", firstLines(string(out), 20))
		}
		if raced || len(failures) > 0 {
			return
		}
	}
	return
}
