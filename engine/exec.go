package main

// Path-forking symbolic interpreter over go/ssa (DESIGN §3.2).
// Forking is by re-execution under a recorded decision prefix.

import (
	"fmt"
	"go/constant"
	"go/token"
	"go/types"
	"math/big"
	"os"
	"strconv"
	"strings"
	"sync"

	"golang.org/x/tools/go/ssa"
)

type pathEnd struct {
	Kind string // unsupported | infeasible | panic | bound | done
	Msg  string
}

func unsupported(msg string) pathEnd { return pathEnd{"unsupported", msg} }

type Decision struct {
	B    bool
	V    *big.Int            // for concretisation decisions
	Pins map[string]*big.Int // variables found to have a unique value after this decision
}

type Input struct {
	Name     string
	Kind     string // bytes | int | bool | token | spell | opaque
	Terms    []*Term
	Lang     int
	Aux      string
	HasRange bool // int input with constant bounds
	Lo, Hi   int64
}

type HApp struct {
	Len, Msg, App *Term
}

type Finding struct {
	Kind     string // assert | panic
	Label    string
	Values   map[string]interface{} // input name -> native value
	Trace    []Decision
	Predict  map[string]string
	CegarRnd int
}

type AccessEvent struct {
	Obj    *Object
	Path   string
	Write  bool
	Sync   string // "", "once-begin", "once-end", "once-wait" ...
	SyncID int
	Thread int
}

type Exec struct {
	inst    *Instance
	P       *Program
	solver  *Solver
	in      *Interner
	pc      []*Term
	hfacts  []*Term
	prefix  []Decision
	pos     int
	trace   []Decision
	alts    [][]Decision
	globals map[*ssa.Global]*Object
	objN    int
	freshN  int
	inputs  []Input
	happs   []HApp
	notes   []string // imprecision / inconclusive notes on this path
	inInit  bool
	steps   int
	depth   int

	checkPanics      bool
	findings         []Finding
	nObl             int // assertion obligations met
	nDischarged      int
	nInconcl         int
	nReach           int
	nPanicObl        int
	reachLabels      map[string]bool
	events           []AccessEvent
	logEvents        bool
	thread           int
	writes           map[string]bool // global-reachable locations written after init
	externs          map[string]*Object
	onceN            int
	readerCalls      int
	predict          map[string]string
	lazies           []*Object
	tokenVars        []*Term
	preCounts        map[string]map[string]*Term
	observed         []Observed
	cegarRounds      int
	pendingExclude   []ExcludeCond
	havoc            bool
	sched            *scheduler
	fileN, fileBytes int
	mutexes          map[string]*mutexState
	builders         map[string]Value
	usedNondet       bool
	goldenIdx        []*Term // word-index terms handed to verifGolden (reference side), for witness diversification
	goldenIdxLang    int
	env              map[string]*big.Int
	envMemo          map[int]*Term
	nTrivial         int
	nPanicTriv       int
	callLog          []string
	funcsSeen        map[string]bool
}

type frame struct {
	fn     *ssa.Function
	info   *funcInfo
	locals []Value
	visits map[int]int
	defers []deferred
}

type deferred struct {
	call *ssa.CallCommon
	fn   Value   // evaluated callee (static or closure)
	recv IfaceV  // for invoke mode
	args []Value // evaluated at defer time
}

type funcInfo struct {
	index map[ssa.Value]int
}

var (
	funcInfoMu  sync.RWMutex
	funcInfoTab = map[*ssa.Function]*funcInfo{}
)

func infoOf(fn *ssa.Function) *funcInfo {
	funcInfoMu.RLock()
	fi := funcInfoTab[fn]
	funcInfoMu.RUnlock()
	if fi != nil {
		return fi
	}
	fi = &funcInfo{index: map[ssa.Value]int{}}
	add := func(v ssa.Value) {
		if _, ok := fi.index[v]; !ok {
			fi.index[v] = len(fi.index)
		}
	}
	for _, p := range fn.Params {
		add(p)
	}
	for _, fv := range fn.FreeVars {
		add(fv)
	}
	for _, b := range fn.Blocks {
		for _, ins := range b.Instrs {
			if v, ok := ins.(ssa.Value); ok {
				add(v)
			}
		}
	}
	funcInfoMu.Lock()
	funcInfoTab[fn] = fi
	funcInfoMu.Unlock()
	return fi
}

func newFrame(fn *ssa.Function) *frame {
	fi := infoOf(fn)
	return &frame{fn: fn, info: fi, locals: make([]Value, len(fi.index)), visits: map[int]int{}}
}

func (fr *frame) set(v ssa.Value, val Value) { fr.locals[fr.info.index[v]] = val }

const maxSteps = 20_000_000
const maxBlockVisits = 200000

func (x *Exec) fresh(prefix string, w int) *Term {
	x.freshN++
	return Var(fmt.Sprintf("%s!%d", prefix, x.freshN), w)
}

func (x *Exec) note(s string) {
	for _, n := range x.notes {
		if n == s {
			return
		}
	}
	x.notes = append(x.notes, s)
}

func (x *Exec) imprecise(why string) *Term {
	x.note("imprecise: " + why)
	return x.fresh("impr", 0)
}

func (x *Exec) addPC(c *Term) {
	if c.IsTrue() {
		return
	}
	if c.IsFalse() {
		panic(pathEnd{"infeasible", "assume false"})
	}
	x.pc = append(x.pc, c)
}

func (x *Exec) simp(t *Term) *Term {
	if len(x.env) == 0 || t.IsConst() {
		return t
	}
	return Subst(t, x.env, x.envMemo)
}

func (x *Exec) pin(name string, v *big.Int) {
	if x.env == nil {
		x.env = map[string]*big.Int{}
	}
	x.env[name] = v
	x.envMemo = map[int]*Term{}
}

// pinVars looks for variables of t that the path condition now forces to a single value.
func (x *Exec) pinVars(t *Term) map[string]*big.Int {
	vars := Vars(t, 4)
	if len(vars) == 0 || len(vars) > 4 {
		return nil
	}
	var pins map[string]*big.Int
	for _, v := range vars {
		if _, ok := x.env[v.Name]; ok || v.W == 0 {
			continue
		}
		r, vals := x.query(nil, []*Term{v})
		if r != "sat" {
			continue
		}
		if x.feasible(Ne(v, BV(vals[0], v.W))) == "unsat" {
			if pins == nil {
				pins = map[string]*big.Int{}
			}
			pins[v.Name] = vals[0]
			x.pin(v.Name, vals[0])
		}
	}
	return pins
}

func (x *Exec) feasible(c *Term) string {
	c = x.simp(c)
	if c.IsConst() {
		if c.IsTrue() {
			return "sat"
		}
		return "unsat"
	}
	// cache per instance: replays of a path prefix ask the same questions again
	buf := make([]byte, 0, 8*len(x.pc)+32)
	for _, t := range x.pc {
		buf = strconv.AppendInt(buf, int64(x.simp(t).id), 36)
		buf = append(buf, ',')
	}
	for _, t := range x.hfacts {
		buf = strconv.AppendInt(buf, int64(t.id), 36)
		buf = append(buf, ';')
	}
	buf = strconv.AppendInt(buf, int64(len(x.in.strs)), 36)
	buf = append(buf, '|')
	buf = strconv.AppendInt(buf, int64(c.id), 36)
	key := string(buf)
	if r, ok := x.inst.feasCache[key]; ok {
		x.inst.CacheHits++
		return r
	}
	r, _ := x.query([]*Term{c}, nil)
	if r != "unknown" {
		x.inst.feasCache[key] = r
	}
	return r
}

// branch decides a symbolic condition, forking when both sides are feasible.
func (x *Exec) branch(c *Term) bool {
	if c.W != 0 {
		panic("branch on non-bool")
	}
	c = x.simp(c)
	if c.IsConst() {
		return c.IsTrue()
	}
	if x.pos < len(x.prefix) {
		d := x.prefix[x.pos]
		x.pos++
		x.trace = append(x.trace, d)
		if d.B {
			x.addPC(c)
		} else {
			x.addPC(Not(c))
		}
		return d.B
	}
	st := x.feasible(c)
	var sf string
	if st == "unsat" {
		sf = "sat" // pc is satisfiable by invariant
	} else {
		sf = x.feasible(Not(c))
	}
	if st == "unknown" || sf == "unknown" {
		x.note("feasibility unknown at a branch (kept both sides)")
	}
	if os.Getenv("VERIF_DEBUG_BRANCH") != "" {
		fmt.Fprintf(os.Stderr, "branch %s : true=%s false=%s pc=%d havoc=%v\n", c.String(), st, sf, len(x.pc), x.havoc)
	}
	tOK, fOK := st != "unsat", sf != "unsat"
	if !tOK && !fOK {
		panic(pathEnd{"infeasible", "both sides infeasible"})
	}
	x.pos++
	if tOK && fOK {
		alt := append(append([]Decision{}, x.trace...), Decision{B: false})
		x.alts = append(x.alts, alt)
		x.trace = append(x.trace, Decision{B: true})
		x.addPC(c)
		return true
	}
	x.trace = append(x.trace, Decision{B: tOK})
	if tOK {
		x.addPC(c)
	} else {
		x.addPC(Not(c))
	}
	return tOK
}

// concretize forks over the feasible values of t (cap 64).
func (x *Exec) concretize(t *Term, what string) *big.Int {
	orig := t
	for n := 0; ; n++ {
		t = x.simp(orig)
		if t.IsConst() {
			return t.Val
		}
		if n > 64 {
			panic(pathEnd{"bound", "more than 64 feasible values for " + what})
		}
		if x.pos < len(x.prefix) {
			d := x.prefix[x.pos]
			x.pos++
			x.trace = append(x.trace, d)
			eq := Eq(t, BV(d.V, t.W))
			if d.B {
				x.addPC(eq)
				for k, v := range d.Pins {
					x.pin(k, v)
				}
				return d.V
			}
			x.addPC(Not(eq))
			continue
		}
		r, vals := x.query(nil, []*Term{t})
		if r == "unsat" {
			panic(pathEnd{"infeasible", "no value for " + what})
		}
		if r != "sat" {
			panic(pathEnd{"unsupported", "solver unknown while concretising " + what})
		}
		v := vals[0]
		eq := Eq(t, BV(v, t.W))
		x.pos++
		if x.feasible(Not(eq)) != "unsat" {
			alt := append(append([]Decision{}, x.trace...), Decision{B: false, V: v})
			x.alts = append(x.alts, alt)
		}
		x.addPC(eq)
		var pins map[string]*big.Int
		if t.Op == "var" {
			pins = map[string]*big.Int{t.Name: v}
			x.pin(t.Name, v)
		} else {
			pins = x.pinVars(t)
		}
		x.trace = append(x.trace, Decision{B: true, V: v, Pins: pins})
		return v
	}
}

func (x *Exec) requireInfeasible(c *Term, why string) {
	if c.IsFalse() {
		return
	}
	if c.IsTrue() || x.feasible(c) != "unsat" {
		panic(unsupported(why))
	}
}

// obligation: safe must hold or the real code panics here.
func (x *Exec) obligation(safe *Term, what string) {
	safe = x.simp(safe)
	if x.checkPanics {
		x.nPanicObl++
	}
	if safe.IsTrue() {
		x.nPanicTriv++
		return
	}
	if !x.checkPanics {
		x.addPC(safe)
		return
	}
	if safe.IsFalse() {
		x.recordPanic(nil, what)
		panic(pathEnd{"panic", what})
	}
	r, vals := x.queryModel([]*Term{Not(safe)})
	switch r {
	case "sat":
		x.recordFinding("panic", what, vals)
	case "unknown":
		x.nInconcl++
		x.note("solver unknown on panic obligation: " + what)
	}
	if x.feasible(safe) == "unsat" {
		panic(pathEnd{"panic", what})
	}
	x.addPC(safe)
}

func (x *Exec) recordPanic(_ []*big.Int, what string) {
	r, vals := x.queryModel(nil)
	if r == "sat" {
		x.recordFinding("panic", what, vals)
	} else if r == "unknown" {
		x.nInconcl++
		x.note("solver unknown on reachable panic: " + what)
	}
}

// ---- heap

func (x *Exec) newObj(name string, t types.Type, v Value) *Object {
	x.objN++
	return &Object{ID: x.objN, Name: name, T: t, Val: v, Global: x.inInit}
}

func (x *Exec) zero(t types.Type) Value {
	switch namedPath(t) {
	case "math/big.Int":
		return BigV{Mag: BVi(0, BigW)}
	case "sync.Once":
		x.onceN++
		return OnceV{Done: tFalse, ID: x.onceN}
	}
	switch u := t.Underlying().(type) {
	case *types.Basic:
		if w, _, ok := intWidth(t); ok {
			return BVi(0, w)
		}
		if isBoolType(t) {
			return tFalse
		}
		if isStringType(t) {
			return ""
		}
		if u.Kind() == types.UnsafePointer {
			return Ptr{}
		}
		if u.Kind() == types.UntypedNil {
			return nil
		}
		panic(unsupported("zero value of basic type " + t.String()))
	case *types.Pointer:
		return Ptr{}
	case *types.Slice:
		z := BVi(0, 64)
		return SliceV{Off: z, Len: z, Cap: z}
	case *types.Map:
		return MapV{}
	case *types.Interface:
		return IfaceV{}
	case *types.Signature:
		return nil
	case *types.Struct:
		s := &StructV{T: t, Fields: make([]Value, u.NumFields())}
		for i := range s.Fields {
			s.Fields[i] = x.zero(u.Field(i).Type())
		}
		return s
	case *types.Array:
		n := int(u.Len())
		a := &ArrV{Elems: make([]Value, n)}
		z := x.zero(u.Elem())
		for i := range a.Elems {
			if i == 0 {
				a.Elems[i] = z
			} else {
				a.Elems[i] = copyVal(z)
			}
		}
		return a
	case *types.Chan:
		panic(unsupported("channels"))
	case *types.Tuple:
		tv := make(TupleV, u.Len())
		for i := range tv {
			tv[i] = x.zero(u.At(i).Type())
		}
		return tv
	}
	panic(unsupported("zero value of " + t.String()))
}

func copyVal(v Value) Value {
	switch a := v.(type) {
	case *StructV:
		n := &StructV{T: a.T, Fields: make([]Value, len(a.Fields))}
		for i, f := range a.Fields {
			n.Fields[i] = copyVal(f)
		}
		return n
	case *ArrV:
		n := &ArrV{Elems: make([]Value, len(a.Elems))}
		for i, f := range a.Elems {
			n.Elems[i] = copyVal(f)
		}
		return n
	}
	return v
}

func (x *Exec) isRepoPkg(p *ssa.Package) bool {
	if p == nil {
		return false
	}
	mod := x.P.Pkg.Pkg.Path()
	return p.Pkg.Path() == mod || strings.HasPrefix(p.Pkg.Path(), mod+"/")
}

func (x *Exec) globalObj(g *ssa.Global) *Object {
	if o, ok := x.globals[g]; ok {
		return o
	}
	elem := g.Type().(*types.Pointer).Elem()
	var o *Object
	if x.isRepoPkg(g.Pkg) {
		o = x.newObj(g.String(), elem, x.zero(elem))
	} else {
		o = x.newObj(g.String(), elem, x.externValue(g.String(), elem))
	}
	o.Global = true
	x.globals[g] = o
	return o
}

// externValue: opaque value for a global of a package whose init is not executed.
func (x *Exec) externValue(name string, t types.Type) Value {
	if _, ok := t.Underlying().(*types.Interface); ok {
		return IfaceV{T: externType(name), V: Ptr{Obj: x.externObj(name)}}
	}
	if st, ok := t.Underlying().(*types.Struct); ok && st.NumFields() == 0 {
		return x.zero(t) // e.g. encoding/binary.BigEndian: a stateless value, its methods run from their SSA
	}
	panic(unsupported(fmt.Sprintf("foreign global %s of type %s", name, t)))
}

var externTypes = map[string]types.Type{}

func externType(name string) types.Type {
	termMu.Lock()
	defer termMu.Unlock()
	if t, ok := externTypes[name]; ok {
		return t
	}
	t := types.NewPointer(types.NewNamed(types.NewTypeName(token.NoPos, nil, "extern:"+name, nil), types.NewStruct(nil, nil), nil))
	externTypes[name] = t
	return t
}

func (x *Exec) externObj(name string) *Object {
	if o, ok := x.externs[name]; ok {
		return o
	}
	o := x.newObj("extern:"+name, nil, nil)
	o.Kind = OExtern
	o.Global = true
	x.externs[name] = o
	return o
}

func pathKey(p []Sel) string {
	var sb strings.Builder
	for _, s := range p {
		if s.Idx != nil {
			if s.Idx.IsConst() {
				fmt.Fprintf(&sb, "[%d]", s.Idx.Int64())
			} else {
				sb.WriteString("[*]")
			}
		} else {
			fmt.Fprintf(&sb, ".%d", s.Field)
		}
	}
	return sb.String()
}

func (x *Exec) access(o *Object, path []Sel, write bool) {
	if !o.Global || x.inInit {
		return
	}
	if write {
		x.writes[o.Name+pathKey(path)] = true
	}
	if x.logEvents {
		// element-insensitive location for the race analysis: all indices of an array are one location
		var sb strings.Builder
		for _, s := range path {
			if s.Idx != nil {
				// small constant indices stay distinct (per-language slots of a table); large arrays are one location
				if s.Idx.IsConst() && s.Idx.Val.IsInt64() && s.Idx.Int64() >= 0 && s.Idx.Int64() < 32 {
					fmt.Fprintf(&sb, "[%d]", s.Idx.Int64())
				} else {
					sb.WriteString("[*]")
				}
			} else {
				fmt.Fprintf(&sb, ".%d", s.Field)
			}
		}
		k := sb.String()
		if n := len(x.events); n > 0 && x.events[n-1].Obj == o && x.events[n-1].Path == k && x.events[n-1].Write == write && x.events[n-1].Sync == "" {
			return
		}
		x.events = append(x.events, AccessEvent{Obj: o, Path: k, Write: write, Thread: x.thread})
	}
}

// markShared marks every object reachable from v as global-reachable.
func (x *Exec) markShared(v Value) {
	switch a := v.(type) {
	case Ptr:
		x.markObj(a.Obj)
	case SliceV:
		x.markObj(a.Obj)
	case MapV:
		x.markObj(a.Obj)
	case IfaceV:
		x.markShared(a.V)
	case *StructV:
		for _, f := range a.Fields {
			x.markShared(f)
		}
	case *ArrV:
		for _, f := range a.Elems {
			x.markShared(f)
		}
	case *ClosureV:
		for _, f := range a.Bindings {
			x.markShared(f)
		}
	}
}

func (x *Exec) markObj(o *Object) {
	if o == nil || o.Global {
		return
	}
	o.Global = true
	x.markShared(o.Val)
	for _, e := range o.Entries {
		x.markShared(e.Val)
	}
}

func (x *Exec) materialize(o *Object) {
	switch o.Kind {
	case OBigBytes:
		n := int(x.concretize(o.BLen, "length of big.Int.Bytes()").Int64())
		a := &ArrV{Elems: make([]Value, n)}
		for i := 0; i < n; i++ {
			lo := 8 * (n - 1 - i)
			a.Elems[i] = Extract(lo+7, lo, o.BMag)
		}
		o.Kind = OPlain
		o.Val = a
	case OLazy:
		n := int(x.concretize(o.LLen, "length of symbolic byte slice").Int64())
		if n > 4096 {
			panic(pathEnd{"bound", "symbolic slice longer than 4096 read"})
		}
		a := &ArrV{Elems: make([]Value, n)}
		for i := 0; i < n; i++ {
			a.Elems[i] = x.lazyCell(o, i)
		}
		o.Kind = OPlain
		o.Val = a
	case OStrBytes:
		s, ok := o.Str.(string)
		if !ok {
			if bs, _, known := x.atomsBytes(toAtoms(o.Str)); known {
				a := &ArrV{Elems: make([]Value, len(bs))}
				for i := range bs {
					a.Elems[i] = bs[i]
				}
				o.Kind = OPlain
				o.Val = a
				return
			}
			panic(unsupported("byte access into symbolic string"))
		}
		a := &ArrV{Elems: make([]Value, len(s))}
		for i := 0; i < len(s); i++ {
			a.Elems[i] = BVi(int64(s[i]), 8)
		}
		o.Kind = OPlain
		o.Val = a
	case OOpaque:
		panic(unsupported("byte access into opaque bytes (" + o.Opq.Fn + ")"))
	}
}

func (x *Exec) lazyCell(o *Object, i int) *Term {
	if c, ok := o.Cells[i]; ok {
		return c
	}
	c := Var(fmt.Sprintf("%s_%d", o.Name, i), 8)
	o.Cells[i] = c
	return c
}

func (x *Exec) load(p Ptr) Value {
	if p.Obj == nil {
		x.obligation(tFalse, "nil pointer dereference")
	}
	o := p.Obj
	if o.Kind != OPlain {
		x.materialize(o)
	}
	x.access(o, p.Path, false)
	return copyVal(x.loadPath(o.Val, p.Path))
}

func (x *Exec) loadPath(v Value, path []Sel) Value {
	if len(path) == 0 {
		return v
	}
	s := path[0]
	if s.Idx == nil {
		return x.loadPath(v.(*StructV).Fields[s.Field], path[1:])
	}
	a := v.(*ArrV)
	if s.Idx.IsConst() {
		i := s.Idx.Int64()
		if i < 0 || int(i) >= len(a.Elems) {
			panic(pathEnd{"infeasible", "index out of range after obligation"})
		}
		return x.loadPath(a.Elems[i], path[1:])
	}
	if len(path) > 1 {
		// element is an aggregate: fork over the feasible index values
		k := x.concretize(s.Idx, "index into an array of aggregates")
		if !k.IsInt64() || k.Int64() < 0 || int(k.Int64()) >= len(a.Elems) {
			panic(pathEnd{"infeasible", "index out of range after obligation"})
		}
		return x.loadPath(a.Elems[k.Int64()], path[1:])
	}
	if len(a.Elems) > 0 {
		switch a.Elems[0].(type) {
		case *Term, string, *SymStr:
		default:
			k := x.concretize(s.Idx, "index into an array of non-scalar values")
			if !k.IsInt64() || k.Int64() < 0 || int(k.Int64()) >= len(a.Elems) {
				panic(pathEnd{"infeasible", "index out of range after obligation"})
			}
			return a.Elems[k.Int64()]
		}
	}
	return x.selectElem(a.Elems, s.Idx)
}

// selectElem reads elems[idx] for a symbolic idx (bounds already obliged).
func (x *Exec) selectElem(elems []Value, idx *Term) Value {
	if len(elems) == 0 {
		panic(pathEnd{"infeasible", "read of empty array"})
	}
	switch elems[0].(type) {
	case *Term:
		// all equal?
		r := elems[len(elems)-1].(*Term)
		for i := len(elems) - 2; i >= 0; i-- {
			r = Ite(Eq(idx, BVi(int64(i), idx.W)), elems[i].(*Term), r)
		}
		return r
	case string, *SymStr:
		keys := make([]int, 0, len(elems))
		vals := make([]int, 0, len(elems))
		var symIdx []int
		for i, e := range elems {
			if s, ok := e.(string); ok && !hasWS(s) {
				keys = append(keys, i)
				vals = append(vals, x.in.ID(s))
				continue
			}
			if id, ok := x.tokenID(toAtoms(e)); ok {
				_ = id
				symIdx = append(symIdx, i)
				continue
			}
			panic(unsupported("symbolic index into strings that are not single tokens"))
		}
		if len(symIdx) == 0 && len(keys) == len(elems) {
			return x.mkStr([]Atom{tabTok(idx, vals)})
		}
		v, _ := pwApply(keys, vals, idx, IDW, BVi(0, IDW))
		for _, i := range symIdx {
			id, _ := x.tokenID(toAtoms(elems[i]))
			v = Ite(Eq(idx, BVi(int64(i), idx.W)), id, v)
		}
		return x.mkStr([]Atom{{K: ATok, T: v}})
	}
	panic(unsupported(fmt.Sprintf("symbolic index into array of %T", elems[0])))
}

func (x *Exec) store(p Ptr, v Value) {
	if p.Obj == nil {
		x.obligation(tFalse, "nil pointer dereference (store)")
	}
	o := p.Obj
	if o.Kind != OPlain {
		x.materialize(o)
	}
	x.access(o, p.Path, true)
	if o.Global {
		x.markShared(v)
	}
	o.Val = x.storePath(o.Val, p.Path, copyVal(v))
}

func (x *Exec) storePath(cur Value, path []Sel, v Value) Value {
	if len(path) == 0 {
		return v
	}
	s := path[0]
	if s.Idx == nil {
		st := cur.(*StructV)
		st.Fields[s.Field] = x.storePath(st.Fields[s.Field], path[1:], v)
		return st
	}
	a := cur.(*ArrV)
	if s.Idx.IsConst() {
		i := s.Idx.Int64()
		if i < 0 || int(i) >= len(a.Elems) {
			panic(pathEnd{"infeasible", "index out of range after obligation"})
		}
		a.Elems[i] = x.storePath(a.Elems[i], path[1:], v)
		return a
	}
	if len(path) > 1 {
		k := x.concretize(s.Idx, "index of a store into an array of aggregates")
		if !k.IsInt64() || k.Int64() < 0 || int(k.Int64()) >= len(a.Elems) {
			panic(pathEnd{"infeasible", "index out of range after obligation"})
		}
		a.Elems[k.Int64()] = x.storePath(a.Elems[k.Int64()], path[1:], v)
		return a
	}
	nv, ok := v.(*Term)
	if !ok {
		// not mergeable cell-wise: fork over the feasible index values instead
		k := x.concretize(s.Idx, "index of a store into an array of non-integers")
		if !k.IsInt64() || k.Int64() < 0 || int(k.Int64()) >= len(a.Elems) {
			panic(pathEnd{"infeasible", "index out of range after obligation"})
		}
		a.Elems[k.Int64()] = v
		return a
	}
	for i := range a.Elems {
		a.Elems[i] = Ite(Eq(s.Idx, BVi(int64(i), s.Idx.W)), nv, a.Elems[i].(*Term))
	}
	return a
}

// ---- values from SSA operands

func (x *Exec) constVal(c *ssa.Const) Value {
	t := c.Type()
	if c.Value == nil {
		return x.zero(t)
	}
	if w, _, ok := intWidth(t); ok {
		if c.Value.Kind() == constant.Int {
			if bi, ok := constant.Val(c.Value).(*big.Int); ok {
				return BV(bi, w)
			}
			if i, ok := constant.Val(c.Value).(int64); ok {
				return BVi(i, w)
			}
		}
		i, _ := constant.Int64Val(constant.ToInt(c.Value))
		return BVi(i, w)
	}
	if isBoolType(t) {
		return Bool(constant.BoolVal(c.Value))
	}
	if isStringType(t) {
		return constant.StringVal(c.Value)
	}
	panic(unsupported("constant of type " + t.String()))
}

func (x *Exec) get(fr *frame, v ssa.Value) Value {
	switch c := v.(type) {
	case *ssa.Const:
		return x.constVal(c)
	case *ssa.Global:
		return Ptr{Obj: x.globalObj(c)}
	case *ssa.Function:
		return c
	case *ssa.Builtin:
		return c
	}
	k, ok := fr.info.index[v]
	if !ok {
		panic(fmt.Sprintf("engine bug: no slot for %s in %s", v.Name(), fr.fn))
	}
	r := fr.locals[k]
	if t, ok := r.(*Term); ok && len(x.env) > 0 && !t.IsConst() {
		return x.simp(t)
	}
	return r
}

// ---- calls

func (x *Exec) call(fn *ssa.Function, args []Value) Value {
	if x.depth > 200 {
		panic(pathEnd{"bound", "call depth > 200"})
	}
	if h, ok := x.intrinsic(fn); ok {
		return h(x, fn, args)
	}
	if x.havoc && !x.inInit && !x.isHarnessFunc(fn) {
		return x.havocResult(fn)
	}
	if fn.Blocks == nil {
		panic(unsupported("call of function without body: " + fn.String()))
	}
	if fn.Name() == "init" && fn.Synthetic != "" && !x.isRepoPkg(fn.Pkg) {
		return nil // foreign package initialisers are not executed
	}
	if x.funcsSeen != nil {
		x.funcsSeen[fn.String()] = true
	}
	x.depth++
	defer func() { x.depth-- }()
	fr := newFrame(fn)
	for i, p := range fn.Params {
		fr.set(p, args[i])
	}
	return x.run(fr, nil)
}

func (x *Exec) callClosure(c *ClosureV, args []Value) Value {
	fn := c.Fn
	if x.funcsSeen != nil {
		x.funcsSeen[fn.String()] = true
	}
	x.depth++
	defer func() { x.depth-- }()
	fr := newFrame(fn)
	for i, p := range fn.Params {
		fr.set(p, args[i])
	}
	for i, fv := range fn.FreeVars {
		fr.set(fv, c.Bindings[i])
	}
	return x.run(fr, nil)
}

func (x *Exec) callValue(f Value, args []Value) Value {
	switch fn := f.(type) {
	case *ssa.Function:
		return x.call(fn, args)
	case *ClosureV:
		return x.callClosure(fn, args)
	case nopFuncV:
		return nil
	case nil:
		x.obligation(tFalse, "call of nil func")
	}
	panic(unsupported(fmt.Sprintf("call of %T", f)))
}

func (x *Exec) run(fr *frame, _ interface{}) Value {
	blk := fr.fn.Blocks[0]
	var prev *ssa.BasicBlock
	for {
		fr.visits[blk.Index]++
		if fr.visits[blk.Index] > maxBlockVisits {
			panic(pathEnd{"bound", fmt.Sprintf("unwinding bound %d exceeded in %s", maxBlockVisits, fr.fn)})
		}
		// phis first (parallel assignment)
		var phiVals []Value
		nphi := 0
		for _, ins := range blk.Instrs {
			phi, ok := ins.(*ssa.Phi)
			if !ok {
				break
			}
			nphi++
			var v Value
			for i, p := range blk.Preds {
				if p == prev {
					v = x.get(fr, phi.Edges[i])
					break
				}
			}
			phiVals = append(phiVals, v)
		}
		for i := 0; i < nphi; i++ {
			fr.set(blk.Instrs[i].(*ssa.Phi), phiVals[i])
		}
		var next *ssa.BasicBlock
		for _, ins := range blk.Instrs[nphi:] {
			x.steps++
			if x.steps > maxSteps {
				panic(pathEnd{"bound", "instruction budget exceeded"})
			}
			switch i := ins.(type) {
			case *ssa.If:
				c := x.get(fr, i.Cond).(*Term)
				if x.branch(c) {
					next = blk.Succs[0]
				} else {
					next = blk.Succs[1]
				}
			case *ssa.Jump:
				next = blk.Succs[0]
			case *ssa.Return:
				switch len(i.Results) {
				case 0:
					return nil
				case 1:
					return x.get(fr, i.Results[0])
				}
				tv := make(TupleV, len(i.Results))
				for k, r := range i.Results {
					tv[k] = x.get(fr, r)
				}
				return tv
			case *ssa.Panic:
				x.obligation(tFalse, "explicit panic in "+fr.fn.String())
			default:
				x.step(fr, ins)
			}
		}
		if next == nil {
			panic(fmt.Sprintf("engine bug: block %d of %s has no terminator", blk.Index, fr.fn))
		}
		prev, blk = blk, next
	}
}

func (x *Exec) step(fr *frame, ins ssa.Instruction) {
	switch i := ins.(type) {
	case *ssa.DebugRef:
	case *ssa.Alloc:
		elem := i.Type().(*types.Pointer).Elem()
		o := x.newObj(fmt.Sprintf("%s.%s", fr.fn.Name(), i.Name()), elem, x.zero(elem))
		fr.set(i, Ptr{Obj: o})
	case *ssa.BinOp:
		fr.set(i, x.binop(i.Op, x.get(fr, i.X), x.get(fr, i.Y), i.X.Type(), i.Y.Type()))
	case *ssa.UnOp:
		fr.set(i, x.unop(i, x.get(fr, i.X)))
	case *ssa.Call:
		fr.set(i, x.doCall(fr, &i.Call))
	case *ssa.ChangeInterface:
		fr.set(i, x.get(fr, i.X))
	case *ssa.ChangeType:
		fr.set(i, x.get(fr, i.X))
	case *ssa.Convert:
		fr.set(i, x.convert(x.get(fr, i.X), i.X.Type(), i.Type()))
	case *ssa.Extract:
		fr.set(i, x.get(fr, i.Tuple).(TupleV)[i.Index])
	case *ssa.Field:
		fr.set(i, copyVal(x.get(fr, i.X).(*StructV).Fields[i.Field]))
	case *ssa.FieldAddr:
		p := x.get(fr, i.X).(Ptr)
		if p.Obj == nil {
			x.obligation(tFalse, "nil pointer dereference (field)")
		}
		fr.set(i, Ptr{Obj: p.Obj, Path: append(append([]Sel{}, p.Path...), Sel{Field: i.Field})})
	case *ssa.Index:
		fr.set(i, x.indexVal(x.get(fr, i.X), x.get(fr, i.Index).(*Term), i.X.Type(), i.Index.Type()))
	case *ssa.IndexAddr:
		fr.set(i, x.indexAddr(x.get(fr, i.X), x.get(fr, i.Index).(*Term), i.X.Type(), i.Index.Type()))
	case *ssa.Lookup:
		fr.set(i, x.lookup(x.get(fr, i.X), x.get(fr, i.Index), i))
	case *ssa.MakeClosure:
		b := make([]Value, len(i.Bindings))
		for k, bv := range i.Bindings {
			b[k] = x.get(fr, bv)
		}
		fr.set(i, &ClosureV{Fn: i.Fn.(*ssa.Function), Bindings: b})
	case *ssa.MakeInterface:
		fr.set(i, IfaceV{T: i.X.Type(), V: x.get(fr, i.X)})
	case *ssa.MakeMap:
		o := x.newObj(fmt.Sprintf("%s.%s", fr.fn.Name(), i.Name()), i.Type(), nil)
		o.Kind = OMap
		o.Index = map[string]int{}
		fr.set(i, MapV{Obj: o})
	case *ssa.MakeSlice:
		fr.set(i, x.makeSlice(fr, i))
	case *ssa.MapUpdate:
		x.mapUpdate(x.get(fr, i.Map).(MapV), x.get(fr, i.Key), x.get(fr, i.Value))
	case *ssa.Slice:
		fr.set(i, x.sliceOp(fr, i))
	case *ssa.Store:
		x.store(x.get(fr, i.Addr).(Ptr), x.get(fr, i.Val))
	case *ssa.TypeAssert:
		fr.set(i, x.typeAssert(i, x.get(fr, i.X).(IfaceV)))
	case *ssa.Range:
		fr.set(i, x.rangeInit(x.get(fr, i.X)))
	case *ssa.Next:
		fr.set(i, x.rangeNext(fr, i))
	case *ssa.RunDefers:
		for len(fr.defers) > 0 {
			d := fr.defers[len(fr.defers)-1]
			fr.defers = fr.defers[:len(fr.defers)-1]
			if d.call.IsInvoke() {
				x.invoke(d.recv, d.call.Method, d.args)
			} else if b, ok := d.call.Value.(*ssa.Builtin); ok {
				x.builtin(b, d.args, d.call)
			} else {
				x.callValue(d.fn, d.args)
			}
		}
	case *ssa.Defer:
		// arguments are evaluated now, the call runs at RunDefers (no recover support: a panic ends the path)
		d := deferred{call: &i.Call}
		for _, a := range i.Call.Args {
			d.args = append(d.args, x.get(fr, a))
		}
		if i.Call.IsInvoke() {
			d.recv = x.get(fr, i.Call.Value).(IfaceV)
		} else if _, ok := i.Call.Value.(*ssa.Builtin); !ok {
			d.fn = x.get(fr, i.Call.Value)
		}
		fr.defers = append(fr.defers, d)
	case *ssa.Go:
		panic(unsupported("go statement in " + fr.fn.String()))
	case *ssa.Send, *ssa.Select, *ssa.MakeChan:
		panic(unsupported("channel operation in " + fr.fn.String()))
	default:
		panic(unsupported(fmt.Sprintf("instruction %T in %s", ins, fr.fn)))
	}
}

func (x *Exec) doCall(fr *frame, c *ssa.CallCommon) Value {
	args := make([]Value, 0, len(c.Args)+1)
	if c.IsInvoke() {
		recv := x.get(fr, c.Value).(IfaceV)
		if recv.T == nil {
			x.obligation(tFalse, "method call on nil interface")
		}
		for _, a := range c.Args {
			args = append(args, x.get(fr, a))
		}
		return x.invoke(recv, c.Method, args)
	}
	for _, a := range c.Args {
		args = append(args, x.get(fr, a))
	}
	switch f := c.Value.(type) {
	case *ssa.Builtin:
		return x.builtin(f, args, c)
	}
	return x.callValue(x.get(fr, c.Value), args)
}

func (x *Exec) invoke(recv IfaceV, m *types.Func, args []Value) Value {
	if p, ok := recv.V.(Ptr); ok && p.Obj != nil {
		switch p.Obj.Kind {
		case OHash:
			return x.hashMethod(p.Obj, m.Name(), args)
		case OErr:
			return x.errMethod(p.Obj, m.Name(), args)
		case OExtern:
			return x.externMethod(p.Obj, m.Name(), args)
		}
	}
	fn := x.P.Prog.LookupMethod(recv.T, m.Pkg(), m.Name())
	if fn == nil {
		panic(unsupported(fmt.Sprintf("no method %s on %s", m.Name(), recv.T)))
	}
	return x.call(fn, append([]Value{recv.V}, args...))
}

// ---- operators

func asTerm(v Value) *Term {
	t, ok := v.(*Term)
	if !ok {
		panic(unsupported(fmt.Sprintf("expected integer/bool term, got %T", v)))
	}
	return t
}

func (x *Exec) binop(op token.Token, a, b Value, ta, tb types.Type) Value {
	// strings
	if isStringType(ta) {
		switch op {
		case token.ADD:
			return x.strConcat(a, b)
		case token.EQL:
			return x.strEq(a, b)
		case token.NEQ:
			return Not(x.strEq(a, b))
		}
		if sa, ok := a.(string); ok {
			if sb, ok := b.(string); ok {
				switch op {
				case token.LSS:
					return Bool(sa < sb)
				case token.LEQ:
					return Bool(sa <= sb)
				case token.GTR:
					return Bool(sa > sb)
				case token.GEQ:
					return Bool(sa >= sb)
				}
			}
		}
		if r, ok := x.strOrder(op, a, b); ok {
			return r
		}
		panic(unsupported("string operator " + op.String() + " on symbolic text"))
	}
	if isBoolType(ta) {
		p, q := asTerm(a), asTerm(b)
		switch op {
		case token.EQL:
			return Eq(p, q)
		case token.NEQ:
			return Not(Eq(p, q))
		case token.AND:
			return And(p, q)
		case token.OR:
			return Or(p, q)
		}
		panic(unsupported("bool operator " + op.String()))
	}
	if w, signed, ok := intWidth(ta); ok {
		p, q := asTerm(a), asTerm(b)
		switch op {
		case token.SHL, token.SHR:
			_, qsigned, _ := intWidth(tb)
			if qsigned {
				x.obligation(Not(Slt(q, BVi(0, q.W))), "negative shift count")
			}
			var cnt *Term
			over := tFalse
			if q.W > w {
				over = Not(Ult(q, BVi(int64(w), q.W)))
				cnt = Extract(w-1, 0, q)
			} else {
				cnt = ZExt(q, w)
				over = Not(Ult(cnt, BVi(int64(w), w)))
			}
			if op == token.SHL {
				return Ite(over, BVi(0, w), Shl(p, cnt))
			}
			if signed {
				return Ite(over, AShr(p, BVi(int64(w-1), w)), AShr(p, cnt))
			}
			return Ite(over, BVi(0, w), LShr(p, cnt))
		}
		if p.W != q.W {
			panic(fmt.Sprintf("engine bug: binop %s widths %d %d", op, p.W, q.W))
		}
		switch op {
		case token.ADD:
			return Add(p, q)
		case token.SUB:
			return Sub(p, q)
		case token.MUL:
			return Mul(p, q)
		case token.QUO:
			x.obligation(Ne(q, BVi(0, w)), "integer divide by zero")
			if signed {
				return SDiv(p, q)
			}
			return UDiv(p, q)
		case token.REM:
			x.obligation(Ne(q, BVi(0, w)), "integer divide by zero")
			if signed {
				return SRem(p, q)
			}
			return URem(p, q)
		case token.AND:
			return BAnd(p, q)
		case token.OR:
			return BOr(p, q)
		case token.XOR:
			return BXor(p, q)
		case token.AND_NOT:
			return BAnd(p, BNot(q))
		case token.EQL:
			return Eq(p, q)
		case token.NEQ:
			return Not(Eq(p, q))
		case token.LSS:
			if signed {
				return Slt(p, q)
			}
			return Ult(p, q)
		case token.LEQ:
			if signed {
				return Sle(p, q)
			}
			return Ule(p, q)
		case token.GTR:
			if signed {
				return Slt(q, p)
			}
			return Ult(q, p)
		case token.GEQ:
			if signed {
				return Sle(q, p)
			}
			return Ule(q, p)
		}
		panic(unsupported("integer operator " + op.String()))
	}
	// pointers, interfaces, etc.: equality only
	switch op {
	case token.EQL:
		return x.valEq(a, b)
	case token.NEQ:
		return Not(x.valEq(a, b))
	}
	panic(unsupported(fmt.Sprintf("operator %s on %s", op, ta)))
}

func (x *Exec) valEq(a, b Value) *Term {
	switch p := a.(type) {
	case *Term:
		return Eq(p, asTerm(b))
	case string, *SymStr:
		return x.strEq(a, b)
	case Ptr:
		q, ok := b.(Ptr)
		if !ok {
			return tFalse
		}
		if p.Obj != q.Obj {
			return tFalse
		}
		if p.Obj == nil {
			return tTrue
		}
		if len(p.Path) != len(q.Path) {
			return tFalse
		}
		conj := []*Term{}
		for i := range p.Path {
			if (p.Path[i].Idx == nil) != (q.Path[i].Idx == nil) {
				return tFalse
			}
			if p.Path[i].Idx == nil {
				if p.Path[i].Field != q.Path[i].Field {
					return tFalse
				}
			} else {
				conj = append(conj, Eq(p.Path[i].Idx, q.Path[i].Idx))
			}
		}
		return And(conj...)
	case IfaceV:
		q, ok := b.(IfaceV)
		if !ok {
			if b == nil {
				return Bool(p.T == nil)
			}
			return tFalse
		}
		if p.T == nil || q.T == nil {
			return Bool(p.T == nil && q.T == nil)
		}
		if !types.Identical(p.T, q.T) {
			return tFalse
		}
		return x.valEq(p.V, q.V)
	case SliceV:
		// only comparison with nil is legal
		return Bool(p.Obj == nil)
	case MapV:
		return Bool(p.Obj == nil)
	case nil:
		switch q := b.(type) {
		case nil:
			return tTrue
		case IfaceV:
			return Bool(q.T == nil)
		case Ptr:
			return Bool(q.Obj == nil)
		case SliceV:
			return Bool(q.Obj == nil)
		case MapV:
			return Bool(q.Obj == nil)
		}
		return tFalse
	case *StructV:
		q := b.(*StructV)
		conj := []*Term{}
		for i := range p.Fields {
			conj = append(conj, x.valEq(p.Fields[i], q.Fields[i]))
		}
		return And(conj...)
	case *ssa.Function, *ClosureV:
		return Bool(b != nil && a == b)
	case BigV:
		panic(unsupported("comparison of big.Int structs"))
	}
	panic(unsupported(fmt.Sprintf("equality on %T", a)))
}

func (x *Exec) unop(i *ssa.UnOp, v Value) Value {
	switch i.Op {
	case token.MUL:
		return x.load(v.(Ptr))
	case token.NOT:
		return Not(asTerm(v))
	case token.SUB:
		return Neg(asTerm(v))
	case token.XOR:
		return BNot(asTerm(v))
	}
	panic(unsupported("unary operator " + i.Op.String()))
}

func (x *Exec) convert(v Value, from, to types.Type) Value {
	if wt, _, ok := intWidth(to); ok {
		if _, sf, ok := intWidth(from); ok {
			return Resize(asTerm(v), wt, sf)
		}
	}
	if isStringType(to) {
		if isStringType(from) {
			return v
		}
		if sl, ok := from.Underlying().(*types.Slice); ok {
			if w, _, ok := intWidth(sl.Elem()); ok && w == 8 {
				return x.bytesToString(v.(SliceV))
			}
		}
		if _, _, ok := intWidth(from); ok {
			t := asTerm(v)
			if t.IsConst() {
				return string(rune(t.Int64()))
			}
		}
	}
	if sl, ok := to.Underlying().(*types.Slice); ok && isStringType(from) {
		if w, _, ok := intWidth(sl.Elem()); ok && w == 8 {
			return x.stringToBytes(v)
		}
	}
	if _, ok := to.Underlying().(*types.Pointer); ok {
		return v
	}
	panic(unsupported(fmt.Sprintf("conversion %s -> %s", from, to)))
}

func (x *Exec) stringToBytes(s Value) SliceV {
	if c, ok := s.(string); ok {
		a := &ArrV{Elems: make([]Value, len(c))}
		for i := 0; i < len(c); i++ {
			a.Elems[i] = BVi(int64(c[i]), 8)
		}
		o := x.newObj("[]byte(string)", nil, a)
		n := BVi(int64(len(c)), 64)
		return SliceV{Obj: o, Off: BVi(0, 64), Len: n, Cap: n}
	}
	o := x.newObj("[]byte(symstring)", nil, nil)
	o.Kind = OStrBytes
	o.Str = s
	n := x.strLen(s)
	return SliceV{Obj: o, Off: BVi(0, 64), Len: n, Cap: n}
}

func (x *Exec) bytesToString(sl SliceV) Value {
	if sl.Obj == nil {
		return ""
	}
	if sl.Obj.Kind == OStrBytes {
		return sl.Obj.Str
	}
	n := int(x.concretize(sl.Len, "length of []byte converted to string").Int64())
	off := x.concretize(sl.Off, "offset of []byte converted to string").Int64()
	if sl.Obj.Kind != OPlain {
		x.materialize(sl.Obj)
	}
	a := sl.Obj.Val.(*ArrV)
	bs := make([]byte, n)
	for i := 0; i < n; i++ {
		t := a.Elems[int(off)+i].(*Term)
		if !t.IsConst() {
			panic(unsupported("string([]byte) of symbolic bytes"))
		}
		bs[i] = byte(t.Uint64())
	}
	return string(bs)
}

// strLen: byte length of a string value as BV64 (an uninterpreted function of the text).
func (x *Exec) strLen(s Value) *Term {
	if c, ok := s.(string); ok {
		return BVi(int64(len(c)), 64)
	}
	if bs, hasB, ok := x.atomsBytes(toAtoms(s)); ok && hasB {
		return BVi(int64(len(bs)), 64)
	}
	h := sha256sum([]byte(renderAtoms(toAtoms(s))))
	n := Var(fmt.Sprintf("strlen_%x", h[:8]), 64)
	x.addPC(Not(Slt(n, BVi(0, 64))))
	for _, a := range toAtoms(s) {
		if a.K == ALit || a.K == ASep || a.K == AItoa {
			x.addPC(Slt(BVi(0, 64), n))
			break
		}
	}
	return n
}

// ---- slices, arrays, indexing

func i64(t *Term, from types.Type) *Term {
	_, signed, _ := intWidth(from)
	return Resize(t, 64, signed)
}

func (x *Exec) makeSlice(fr *frame, i *ssa.MakeSlice) Value {
	ln := i64(x.get(fr, i.Len).(*Term), i.Len.Type())
	cp := i64(x.get(fr, i.Cap).(*Term), i.Cap.Type())
	x.obligation(Not(Slt(ln, BVi(0, 64))), "makeslice: len out of range")
	x.obligation(And(Not(Slt(cp, ln))), "makeslice: cap out of range")
	n := x.concretize(cp, "capacity of make([]T)")
	if !n.IsInt64() || n.Int64() > 1<<16 {
		panic(pathEnd{"bound", "make of more than 65536 elements"})
	}
	elem := i.Type().Underlying().(*types.Slice).Elem()
	a := &ArrV{Elems: make([]Value, n.Int64())}
	for k := range a.Elems {
		a.Elems[k] = x.zero(elem)
	}
	o := x.newObj(fmt.Sprintf("%s.%s", fr.fn.Name(), i.Name()), nil, a)
	return SliceV{Obj: o, Off: BVi(0, 64), Len: ln, Cap: BV(n, 64)}
}

func (x *Exec) indexAddr(base Value, idx *Term, tb, ti types.Type) Value {
	idx = i64(idx, ti)
	switch b := base.(type) {
	case SliceV:
		x.obligation(Ult(idx, b.Len), "index out of range")
		if b.Obj == nil {
			panic(pathEnd{"infeasible", "index into nil slice after obligation"})
		}
		return Ptr{Obj: b.Obj, Path: []Sel{{Idx: Add(b.Off, idx)}}}
	case Ptr:
		if b.Obj == nil {
			x.obligation(tFalse, "nil pointer dereference (index)")
		}
		at := tb.Underlying().(*types.Pointer).Elem().Underlying().(*types.Array)
		x.obligation(Ult(idx, BVi(at.Len(), 64)), "index out of range")
		return Ptr{Obj: b.Obj, Path: append(append([]Sel{}, b.Path...), Sel{Idx: idx})}
	}
	panic(unsupported(fmt.Sprintf("IndexAddr on %T", base)))
}

func (x *Exec) indexVal(base Value, idx *Term, tb, ti types.Type) Value {
	idx = i64(idx, ti)
	switch b := base.(type) {
	case *ArrV:
		x.obligation(Ult(idx, BVi(int64(len(b.Elems)), 64)), "index out of range")
		if idx.IsConst() {
			return copyVal(b.Elems[idx.Int64()])
		}
		return x.selectElem(b.Elems, idx)
	case string:
		x.obligation(Ult(idx, BVi(int64(len(b)), 64)), "string index out of range")
		return x.stringByteAt(b, idx)
	case *SymStr:
		return x.symStrByteAt(b, idx)
	}
	panic(unsupported(fmt.Sprintf("Index on %T", base)))
}

func (x *Exec) sliceOp(fr *frame, i *ssa.Slice) Value {
	base := x.get(fr, i.X)
	var lo, hi, mx *Term
	if i.Low != nil {
		lo = i64(x.get(fr, i.Low).(*Term), i.Low.Type())
	}
	if i.High != nil {
		hi = i64(x.get(fr, i.High).(*Term), i.High.Type())
	}
	if i.Max != nil {
		mx = i64(x.get(fr, i.Max).(*Term), i.Max.Type())
	}
	switch b := base.(type) {
	case string, *SymStr:
		s, ok := b.(string)
		if !ok {
			panic(unsupported("slicing symbolic string"))
		}
		if lo == nil {
			lo = BVi(0, 64)
		}
		if hi == nil {
			hi = BVi(int64(len(s)), 64)
		}
		x.obligation(And(Ule(lo, hi), Ule(hi, BVi(int64(len(s)), 64))), "string slice bounds out of range")
		l := x.concretize(lo, "string slice low bound").Int64()
		h := x.concretize(hi, "string slice high bound").Int64()
		return s[l:h]
	case SliceV:
		if lo == nil {
			lo = BVi(0, 64)
		}
		if hi == nil {
			hi = b.Len
		}
		cp := b.Cap
		if mx != nil {
			x.obligation(And(Ule(hi, mx), Ule(mx, b.Cap)), "slice bounds out of range (max)")
			cp = mx
		}
		x.obligation(And(Ule(lo, hi), Ule(hi, b.Cap)), "slice bounds out of range")
		return SliceV{Obj: b.Obj, Off: Add(b.Off, lo), Len: Sub(hi, lo), Cap: Sub(cp, lo)}
	case Ptr:
		if b.Obj == nil {
			x.obligation(tFalse, "nil pointer dereference (slice)")
		}
		if len(b.Path) != 0 {
			panic(unsupported("slicing an array nested inside another object"))
		}
		at := i.X.Type().Underlying().(*types.Pointer).Elem().Underlying().(*types.Array)
		n := BVi(at.Len(), 64)
		if lo == nil {
			lo = BVi(0, 64)
		}
		if hi == nil {
			hi = n
		}
		cp := n
		if mx != nil {
			x.obligation(And(Ule(hi, mx), Ule(mx, n)), "slice bounds out of range (max)")
			cp = mx
		}
		x.obligation(And(Ule(lo, hi), Ule(hi, n)), "slice bounds out of range")
		return SliceV{Obj: b.Obj, Off: lo, Len: Sub(hi, lo), Cap: Sub(cp, lo)}
	}
	panic(unsupported(fmt.Sprintf("Slice on %T", base)))
}

// sliceElems returns the concrete-length element terms of a byte slice (concretising length/offset).
func (x *Exec) sliceElems(sl SliceV, what string) []Value {
	if sl.Obj == nil {
		n := x.concretize(sl.Len, what)
		if n.Sign() != 0 {
			panic(pathEnd{"infeasible", "non-empty nil slice"})
		}
		return nil
	}
	if sl.Obj.Kind != OPlain {
		x.materialize(sl.Obj)
	}
	n := int(x.concretize(sl.Len, "length of "+what).Int64())
	off := int(x.concretize(sl.Off, "offset of "+what).Int64())
	a := sl.Obj.Val.(*ArrV)
	x.access(sl.Obj, nil, false)
	out := a.Elems[off : off+n]
	for i, e := range out {
		if t, ok := e.(*Term); ok && t.Op == "ite" {
			out[i] = x.resolveIte(t)
		}
	}
	return out
}

// resolveIte removes ite layers whose condition the path condition already decides
// (solver-aided simplification; the result is equal to t on this path).
func (x *Exec) resolveIte(t *Term) *Term {
	t = x.simp(t)
	if t.Op != "ite" {
		return t
	}
	// distinct leaves of the ite tree
	var leaves []*Term
	seen := map[int]bool{}
	var rec func(u *Term)
	rec = func(u *Term) {
		if seen[u.id] || len(leaves) > 6 {
			return
		}
		seen[u.id] = true
		if u.Op == "ite" {
			rec(u.Args[1])
			rec(u.Args[2])
			return
		}
		leaves = append(leaves, u)
	}
	rec(t)
	if len(leaves) > 6 {
		return t
	}
	for _, l := range leaves {
		if x.feasible(Ne(t, l)) == "unsat" {
			return l
		}
	}
	return t
}

// ---- maps

func (x *Exec) mapUpdate(m MapV, k, v Value) {
	if m.Obj == nil {
		x.obligation(tFalse, "assignment to entry in nil map")
	}
	x.access(m.Obj, nil, true)
	switch key := k.(type) {
	case string:
		if j, ok := m.Obj.Index[key]; ok {
			m.Obj.Entries[j].Val = v
			return
		}
		m.Obj.Index[key] = len(m.Obj.Entries)
		m.Obj.Entries = append(m.Obj.Entries, MapEntry{Key: key, Val: v})
		return
	case *Term:
		if key.IsConst() {
			ks := "#" + key.Val.String()
			if j, ok := m.Obj.Index[ks]; ok {
				m.Obj.Entries[j].Val = v
				return
			}
			m.Obj.Index[ks] = len(m.Obj.Entries)
			m.Obj.Entries = append(m.Obj.Entries, MapEntry{Key: key, Val: v})
			return
		}
	}
	panic(unsupported(fmt.Sprintf("map update with symbolic key (%T)", k)))
}

func (x *Exec) lookup(base, key Value, i *ssa.Lookup) Value {
	switch b := base.(type) {
	case string:
		idx := i64(key.(*Term), i.Index.Type())
		x.obligation(Ult(idx, BVi(int64(len(b)), 64)), "string index out of range")
		return x.stringByteAt(b, idx)
	case *SymStr:
		return x.symStrByteAt(b, i64(key.(*Term), i.Index.Type()))
	case MapV:
		vt := i.X.Type().Underlying().(*types.Map).Elem()
		val, ok := x.mapLookup(b, key, vt)
		if i.CommaOk {
			return TupleV{val, ok}
		}
		return val
	}
	panic(unsupported(fmt.Sprintf("Lookup on %T", base)))
}

func (x *Exec) mapLookup(m MapV, key Value, vt types.Type) (Value, *Term) {
	zero := x.zero(vt)
	if m.Obj == nil {
		return zero, tFalse
	}
	x.access(m.Obj, nil, false)
	o := m.Obj
	switch k := key.(type) {
	case string:
		if j, ok := o.Index[k]; ok {
			return o.Entries[j].Val, tTrue
		}
		return zero, tFalse
	case *Term:
		if k.IsConst() {
			if j, ok := o.Index["#"+k.Val.String()]; ok {
				return o.Entries[j].Val, tTrue
			}
			return zero, tFalse
		}
		// symbolic integer key over a map whose keys are all constants: first-match chain
		zt, isTerm := zero.(*Term)
		if !isTerm {
			panic(unsupported("map lookup with symbolic integer key and non-integer values"))
		}
		val, in := zt, tFalse
		km, kv := knownBits(k, 6)
		// compare only the low bits when all higher bits of the key are constant
		low := k.W
		for low > 0 && km.Bit(low-1) == 1 {
			low--
		}
		kl := k
		if low > 0 && low < k.W {
			kl = Extract(low-1, 0, k)
		}
		for j := len(o.Entries) - 1; j >= 0; j-- {
			ek, ok1 := o.Entries[j].Key.(*Term)
			ev, ok2 := o.Entries[j].Val.(*Term)
			if !ok1 || !ok2 || !ek.IsConst() {
				panic(unsupported("map lookup with symbolic integer key over symbolic entries"))
			}
			if new(big.Int).And(ek.Val, km).Cmp(kv) != 0 {
				continue // differs from the key in a bit the key always has
			}
			c := Eq(k, ek)
			if kl != k {
				c = Eq(kl, Extract(low-1, 0, ek))
			}
			val = Ite(c, ev, val)
			in = Or(c, in)
		}
		return val, in
	case *SymStr:
		toks, seps := splitTokens(k.A)
		if !simpleAtoms(k.A) {
			panic(unsupported("map lookup with opaque text key"))
		}
		// precondition of the token domain: keys are whitespace-free
		for _, e := range o.Entries {
			if ks, ok := e.Key.(string); !ok || hasWS(ks) {
				if len(seps) > 0 || !ok {
					panic(unsupported("map with whitespace-containing or symbolic keys"))
				}
			}
		}
		if len(seps) > 0 {
			return zero, tFalse // a key containing whitespace is in no whitespace-free key set
		}
		if bs, hasB, known := x.atomsBytes(toks[0]); known && hasB {
			zt, isTerm := zero.(*Term)
			if !isTerm {
				panic(unsupported("symbolic map lookup with non-integer values"))
			}
			val, in := zt, tFalse
			for _, e := range o.Entries {
				ks := e.Key.(string)
				if len(ks) != len(bs) {
					continue
				}
				c := bytesEqConst(bs, ks)
				val = Ite(c, e.Val.(*Term), val)
				in = Or(c, in)
			}
			return val, in
		}
		id, ok := x.tokenID(toks[0])
		if !ok {
			panic(unsupported("map lookup with composite token key"))
		}
		zt, isTerm := zero.(*Term)
		if !isTerm {
			panic(unsupported("symbolic map lookup with non-integer values"))
		}
		keys := make([]int, 0, len(o.Entries))
		vals := make([]int, 0, len(o.Entries))
		type symEnt struct {
			k int
			v *Term
		}
		var sym []symEnt
		for _, e := range o.Entries {
			kid := x.in.ID(e.Key.(string))
			vtm := e.Val.(*Term)
			if vtm.IsConst() && vtm.Val.IsInt64() && vtm.Int64() >= -(1<<30) && vtm.Int64() < 1<<30 {
				keys = append(keys, kid)
				vals = append(vals, int(vtm.Int64()))
			} else {
				sym = append(sym, symEnt{kid, vtm})
			}
		}
		val, in := pwApply(keys, vals, id, zt.W, zt)
		if zt.W < IDW {
			panic(unsupported("symbolic map lookup with narrow values"))
		}
		for _, s := range sym {
			c := Eq(id, BVi(int64(s.k), IDW))
			val = Ite(c, s.v, val)
			in = Or(c, in)
		}
		return val, in
	}
	panic(unsupported(fmt.Sprintf("map lookup with key %T", key)))
}

type rangeIter struct {
	m   *Object
	pos int
	str string
	// range over a text with a byte token: precomputed (offset, rune) pairs
	runes []TupleV
	sym   bool
}

func (x *Exec) rangeInit(v Value) Value {
	switch m := v.(type) {
	case MapV:
		if m.Obj != nil {
			x.access(m.Obj, nil, false)
		}
		return &rangeIter{m: m.Obj}
	case string:
		return &rangeIter{str: m, pos: 0}
	case *SymStr:
		// byte tokens are ASCII (one rune per byte); the literal parts are decoded concretely
		it := &rangeIter{sym: true}
		off := 0
		for _, a := range m.A {
			switch {
			case a.K == ATok && a.B != nil:
				for _, b := range a.B {
					it.runes = append(it.runes, TupleV{tTrue, BVi(int64(off), 64), ZExt(b, 32)})
					off++
				}
			case a.K == ALit || a.K == ASep:
				for p := 0; p < len(a.S); {
					r, n := decodeRune(a.S[p:])
					it.runes = append(it.runes, TupleV{tTrue, BVi(int64(off+p), 64), BVi(int64(r), 32)})
					p += n
				}
				off += len(a.S)
			default:
				panic(unsupported("range over symbolic string"))
			}
		}
		return it
	}
	panic(unsupported(fmt.Sprintf("range over %T", v)))
}

func (x *Exec) rangeNext(fr *frame, i *ssa.Next) Value {
	it := x.get(fr, i.Iter).(*rangeIter)
	if i.IsString && it.sym {
		if it.pos >= len(it.runes) {
			return TupleV{tFalse, BVi(0, 64), BVi(0, 32)}
		}
		it.pos++
		return it.runes[it.pos-1]
	}
	if i.IsString {
		if it.pos >= len(it.str) {
			return TupleV{tFalse, BVi(0, 64), BVi(0, 32)}
		}
		r, n := decodeRune(it.str[it.pos:])
		p := it.pos
		it.pos += n
		return TupleV{tTrue, BVi(int64(p), 64), BVi(int64(r), 32)}
	}
	mt := i.Iter.(*ssa.Range).X.Type().Underlying().(*types.Map)
	if it.m == nil || it.pos >= len(it.m.Entries) {
		return TupleV{tFalse, x.zero(mt.Key()), x.zero(mt.Elem())}
	}
	e := it.m.Entries[it.pos]
	it.pos++
	return TupleV{tTrue, e.Key, e.Val}
}

func decodeRune(s string) (rune, int) {
	for i, r := range s {
		_ = i
		n := len(string(r))
		if r == 0xFFFD && (len(s) < 3 || s[:3] != "\xef\xbf\xbd") {
			n = 1
		}
		return r, n
	}
	return 0, 0
}

func (x *Exec) typeAssert(i *ssa.TypeAssert, v IfaceV) Value {
	ok := false
	var res Value
	if v.T != nil {
		if _, isIface := i.AssertedType.Underlying().(*types.Interface); isIface {
			it := i.AssertedType.Underlying().(*types.Interface)
			ok = types.Implements(v.T, it)
			if strings.HasPrefix(namedPath(v.T), "*extern:") {
				// opaque foreign values (io.EOF, fmt errors, crypto/rand.Reader) offer only Error / Read
				ok = true
				for m := 0; m < it.NumMethods(); m++ {
					if n := it.Method(m).Name(); n != "Error" && n != "Read" {
						ok = false
					}
				}
			}
			res = v
		} else {
			ok = types.Identical(v.T, i.AssertedType)
			res = v.V
		}
	}
	if !ok {
		res = x.zero(i.AssertedType)
	}
	if i.CommaOk {
		return TupleV{res, Bool(ok)}
	}
	if !ok {
		x.obligation(tFalse, "failed type assertion")
	}
	return res
}

// ---- builtins

func (x *Exec) builtin(b *ssa.Builtin, args []Value, c *ssa.CallCommon) Value {
	switch b.Name() {
	case "len":
		switch v := args[0].(type) {
		case SliceV:
			return v.Len
		case string:
			return BVi(int64(len(v)), 64)
		case *SymStr:
			return x.strLen(v)
		case MapV:
			if v.Obj == nil {
				return BVi(0, 64)
			}
			x.access(v.Obj, nil, false)
			return BVi(int64(len(v.Obj.Entries)), 64)
		case *ArrV:
			return BVi(int64(len(v.Elems)), 64)
		case Ptr:
			at := c.Args[0].Type().Underlying().(*types.Pointer).Elem().Underlying().(*types.Array)
			return BVi(at.Len(), 64)
		}
	case "cap":
		if v, ok := args[0].(SliceV); ok {
			return v.Cap
		}
	case "copy":
		return x.builtinCopy(args[0].(SliceV), args[1])
	case "append":
		return x.builtinAppend(args[0].(SliceV), args[1], c)
	case "print", "println":
		return nil
	case "min", "max":
		_, signed, _ := intWidth(c.Args[0].Type())
		r := asTerm(args[0])
		for _, a := range args[1:] {
			t := asTerm(a)
			var lt *Term
			if signed {
				lt = Slt(t, r)
			} else {
				lt = Ult(t, r)
			}
			if b.Name() == "max" {
				lt = Not(Or(lt, Eq(t, r)))
			}
			r = Ite(lt, t, r)
		}
		return r
	}
	panic(unsupported("builtin " + b.Name()))
}

func (x *Exec) builtinCopy(dst SliceV, srcv Value) Value {
	var src SliceV
	switch s := srcv.(type) {
	case SliceV:
		src = s
	case string, *SymStr:
		src = x.stringToBytes(s)
	}
	n := Ite(Slt(dst.Len, src.Len), dst.Len, src.Len)
	if n.IsConst() && n.Val.Sign() == 0 {
		return n
	}
	if dst.Obj.Kind != OPlain {
		x.materialize(dst.Obj)
	}
	if src.Obj.Kind == OBigBytes && !src.Obj.BLen.IsConst() {
		// source = the significant bytes of a big.Int (symbolic count): byte t is
		// (mag >> 8*(L-1-t)) & 0xff; no fork over the length
		da := dst.Obj.Val.(*ArrV)
		if len(da.Elems) > 512 {
			panic(pathEnd{"bound", "copy of big.Int bytes into an array larger than 512 cells"})
		}
		x.access(dst.Obj, nil, true)
		L, mag := src.Obj.BLen, src.Obj.BMag
		for j := range da.Elems {
			jt := BVi(int64(j), 64)
			rel := Sub(jt, dst.Off)
			inr := And(Sle(dst.Off, jt), Slt(rel, n))
			if inr.IsFalse() {
				continue
			}
			t := Add(src.Off, rel)
			amt := Mul(BVi(8, 64), Sub(Sub(L, BVi(1, 64)), t))
			v := Extract(7, 0, LShr(mag, ZExt(amt, BigW)))
			da.Elems[j] = Ite(inr, v, asTerm(da.Elems[j]))
		}
		return n
	}
	if src.Obj.Kind != OPlain {
		x.materialize(src.Obj)
	}
	sa := src.Obj.Val.(*ArrV)
	da := dst.Obj.Val.(*ArrV)
	if len(sa.Elems) == 0 {
		return n
	}
	x.access(src.Obj, nil, false)
	x.access(dst.Obj, nil, true)
	if n.IsConst() && dst.Off.IsConst() && src.Off.IsConst() {
		k, d0, s0 := int(n.Int64()), int(dst.Off.Int64()), int(src.Off.Int64())
		tmp := make([]Value, k)
		copy(tmp, sa.Elems[s0:s0+k])
		copy(da.Elems[d0:d0+k], tmp)
		return n
	}
	// symbolic count / offsets: cell-wise ite
	if d := Sub(src.Off, dst.Off); !d.IsConst() && (len(da.Elems) > 256 || len(sa.Elems) > 256) {
		panic(pathEnd{"bound", "symbolic copy with unrelated offsets over arrays larger than 256 cells"})
	}
	if len(da.Elems) > 8192 {
		panic(pathEnd{"bound", "symbolic copy into an array larger than 8192 cells"})
	}
	old := make([]*Term, len(sa.Elems))
	for i, e := range sa.Elems {
		old[i] = asTerm(e)
	}
	delta := Sub(src.Off, dst.Off)
	for j := range da.Elems {
		jt := BVi(int64(j), 64)
		rel := Sub(jt, dst.Off) // j - dstoff
		inr := And(Sle(dst.Off, jt), Slt(rel, n))
		if inr.IsFalse() {
			continue
		}
		sidx := Add(jt, delta)
		var v *Term
		if sidx.IsConst() {
			k := sidx.Int64()
			if k < 0 || int(k) >= len(old) {
				continue
			}
			v = old[k]
		} else {
			v = old[len(old)-1]
			for k := len(old) - 2; k >= 0; k-- {
				v = Ite(Eq(sidx, BVi(int64(k), 64)), old[k], v)
			}
		}
		da.Elems[j] = Ite(inr, v, asTerm(da.Elems[j]))
	}
	return n
}

func (x *Exec) builtinAppend(dst SliceV, srcv Value, c *ssa.CallCommon) Value {
	var add []Value
	switch s := srcv.(type) {
	case SliceV:
		add = x.sliceElems(s, "appended slice")
	case string:
		for i := 0; i < len(s); i++ {
			add = append(add, BVi(int64(s[i]), 8))
		}
	default:
		panic(unsupported("append of symbolic string"))
	}
	// in place when the spare capacity suffices (real semantics: the backing array is shared)
	if dst.Obj != nil && dst.Obj.Kind == OPlain && dst.Cap.IsConst() && dst.Len.IsConst() && dst.Off.IsConst() &&
		dst.Len.Int64()+int64(len(add)) <= dst.Cap.Int64() {
		arr := dst.Obj.Val.(*ArrV)
		base := int(dst.Off.Int64() + dst.Len.Int64())
		if base+len(add) <= len(arr.Elems) {
			for i, e := range add {
				arr.Elems[base+i] = copyVal(e)
			}
			x.access(dst.Obj, nil, true)
			return SliceV{Obj: dst.Obj, Off: dst.Off, Len: BVi(dst.Len.Int64()+int64(len(add)), 64), Cap: dst.Cap}
		}
	}
	cur := x.sliceElems(dst, "append destination")
	elems := make([]Value, 0, len(cur)+len(add))
	for _, e := range cur {
		elems = append(elems, copyVal(e))
	}
	for _, e := range add {
		elems = append(elems, copyVal(e))
	}
	o := x.newObj("append", nil, &ArrV{Elems: elems})
	n := BVi(int64(len(elems)), 64)
	return SliceV{Obj: o, Off: BVi(0, 64), Len: n, Cap: n}
}

// strOrder lifts an ordering comparison between a table-lifted token and a concrete string
// (or two concrete strings) over the table.
func (x *Exec) strOrder(op token.Token, a, b Value) (*Term, bool) {
	cmp := func(p, q string) bool {
		switch op {
		case token.LSS:
			return p < q
		case token.LEQ:
			return p <= q
		case token.GTR:
			return p > q
		case token.GEQ:
			return p >= q
		}
		return false
	}
	lift := func(tok []Atom, other string, tokLeft bool) (*Term, bool) {
		if len(tok) != 1 || tok[0].K != ATok {
			return nil, false
		}
		var keys, vals []int
		var key *Term
		if tok[0].Tab != nil {
			key = tok[0].Idx
			for i, id := range tok[0].Tab {
				s, _ := x.in.Str(id)
				r := cmp(other, s)
				if tokLeft {
					r = cmp(s, other)
				}
				keys = append(keys, i)
				if r {
					vals = append(vals, 1)
				} else {
					vals = append(vals, 0)
				}
			}
		} else {
			key = tok[0].T
			for i, s := range x.in.strs {
				r := cmp(other, s)
				if tokLeft {
					r = cmp(s, other)
				}
				keys = append(keys, i)
				if r {
					vals = append(vals, 1)
				} else {
					vals = append(vals, 0)
				}
			}
		}
		dflt := ZExt(Ite(x.fresh("strcmp", 0), BVi(1, 1), BVi(0, 1)), 8)
		v, _ := pwApply(keys, vals, key, 8, dflt)
		return Eq(v, BVi(1, 8)), true
	}
	if sb, ok := b.(string); ok {
		if sa, ok := a.(*SymStr); ok && simpleAtoms(sa.A) {
			return lift(sa.A, sb, true)
		}
	}
	if sa, ok := a.(string); ok {
		if sb, ok := b.(*SymStr); ok && simpleAtoms(sb.A) {
			return lift(sb.A, sa, false)
		}
	}
	return nil, false
}

// symStrByteAt: byte of a text whose bytes are all known terms (byte tokens, literals).
func (x *Exec) symStrByteAt(b *SymStr, idx *Term) *Term {
	bs, _, ok := x.atomsBytes(b.A)
	if !ok {
		panic(unsupported("byte access into symbolic string " + renderAtoms(b.A)))
	}
	x.obligation(Ult(idx, BVi(int64(len(bs)), 64)), "string index out of range")
	if idx.IsConst() {
		return bs[idx.Int64()]
	}
	v := bs[len(bs)-1]
	for k := len(bs) - 2; k >= 0; k-- {
		v = Ite(Eq(idx, BVi(int64(k), 64)), bs[k], v)
	}
	return v
}

// stringByteAt: byte of a constant string at a (possibly symbolic) in-range index, as a piecewise table.
func (x *Exec) stringByteAt(b string, idx *Term) *Term {
	if idx.IsConst() {
		return BVi(int64(b[idx.Int64()]), 8)
	}
	if len(b) > 4096 {
		k := x.concretize(idx, "index into a long constant string")
		return BVi(int64(b[k.Int64()]), 8)
	}
	// generic: chain over maximal runs, first run first
	type run struct {
		hi int
		c  byte
	}
	var runs []run
	for p := 0; p < len(b); {
		q := p
		for q+1 < len(b) && b[q+1] == b[p] {
			q++
		}
		runs = append(runs, run{q, b[p]})
		p = q + 1
	}
	v := BVi(int64(runs[len(runs)-1].c), 8)
	for r := len(runs) - 2; r >= 0; r-- {
		v = Ite(Ule(idx, BVi(int64(runs[r].hi), 64)), BVi(int64(runs[r].c), 8), v)
	}
	return v
}
