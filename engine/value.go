package main

import (
	"fmt"
	"go/types"

	"golang.org/x/tools/go/ssa"
)

// Value is one of:
//
//	*Term            ints (BV of Go width) and bools (W=0)
//	string / *SymStr strings
//	Ptr              pointers
//	SliceV           slices
//	IfaceV           interface values
//	*StructV         struct values (by value)
//	*ArrV            array values (by value)
//	TupleV           multi-results
//	MapV             maps
//	*ssa.Function, *ClosureV, *ssa.Builtin   funcs
//	BigV             math/big.Int payload (stored in the cell of a big.Int object)
//	OnceV            sync.Once payload
//	nil              zero func / untyped nil
type Value interface{}

type Sel struct {
	Field int   // >=0: struct field
	Idx   *Term // non-nil: array element (BV64)
}

type Ptr struct {
	Obj  *Object
	Path []Sel
}

func (p Ptr) IsNil() bool { return p.Obj == nil }

type SliceV struct {
	Obj           *Object // array object (Val is *ArrV) or special object; nil for nil slice
	Off, Len, Cap *Term   // BV64
}

type IfaceV struct {
	T types.Type // nil for nil interface
	V Value
}

type StructV struct {
	T      types.Type
	Fields []Value
}

type ArrV struct {
	Elems []Value
}

type TupleV []Value

type MapV struct {
	Obj *Object // nil map: Obj==nil
}

type ClosureV struct {
	Fn       *ssa.Function
	Bindings []Value
}

const BigW = 384

type BigV struct {
	Neg bool
	Mag *Term // BV BigW
}

type OnceV struct {
	Done    *Term // Bool
	ID      int
	Running bool
}

type ObjKind int

const (
	OPlain    ObjKind = iota
	OBigBytes         // result of big.Int.Bytes(): Len significant bytes of Mag
	OStrBytes         // []byte(string)
	OOpaque           // opaque byte result (pbkdf2)
	OHash             // sha256 state
	OMap
	OErr    // fmt.Errorf result
	OLazy   // symbolic-length byte slice, cells created on demand
	OExtern // opaque foreign object (crypto/rand.Reader, io.EOF ...)
)

type MapEntry struct {
	Key Value // string
	Val Value
}

type Object struct {
	ID     int
	Name   string
	Kind   ObjKind
	T      types.Type
	Val    Value // OPlain: the stored value tree
	Global bool

	// OBigBytes
	BLen *Term // BV64
	BMag *Term // BV BigW
	// OStrBytes / OErr
	Str     Value
	Wrapped Value // OErr: %w operand (IfaceV) or nil
	// OOpaque
	Opq *OpqExpr
	// OHash
	HKind string
	HBuf  []HChunk
	// OMap
	Entries []MapEntry
	Index   map[string]int
	// OLazy
	LLen  *Term
	Cells map[int]*Term
}

type HChunk struct {
	Bytes []*Term // concrete-length run of byte terms
	BLen  *Term   // or a symbolic-length big-endian chunk
	BMag  *Term
}

// OpqExpr is an uninterpreted expression over values (used for pbkdf2 / opaque text).
type OpqExpr struct {
	Fn   string
	Args []Value
}

func (o *Object) String() string { return fmt.Sprintf("obj#%d(%s)", o.ID, o.Name) }

// ---- type helpers

func intWidth(t types.Type) (w int, signed bool, ok bool) {
	b, isB := t.Underlying().(*types.Basic)
	if !isB {
		return 0, false, false
	}
	switch b.Kind() {
	case types.Int, types.Int64, types.UntypedInt:
		return 64, true, true
	case types.Int32, types.UntypedRune:
		return 32, true, true
	case types.Int16:
		return 16, true, true
	case types.Int8:
		return 8, true, true
	case types.Uint, types.Uint64, types.Uintptr:
		return 64, false, true
	case types.Uint32:
		return 32, false, true
	case types.Uint16:
		return 16, false, true
	case types.Uint8:
		return 8, false, true
	}
	return 0, false, false
}

func isBoolType(t types.Type) bool {
	b, ok := t.Underlying().(*types.Basic)
	return ok && (b.Kind() == types.Bool || b.Kind() == types.UntypedBool)
}

func isStringType(t types.Type) bool {
	b, ok := t.Underlying().(*types.Basic)
	return ok && (b.Kind() == types.String || b.Kind() == types.UntypedString)
}

func namedPath(t types.Type) string {
	if p, ok := t.(*types.Pointer); ok {
		return "*" + namedPath(p.Elem())
	}
	if n, ok := t.(*types.Named); ok {
		if n.Obj().Pkg() != nil {
			return n.Obj().Pkg().Path() + "." + n.Obj().Name()
		}
		return n.Obj().Name()
	}
	if a, ok := t.(*types.Alias); ok {
		return namedPath(types.Unalias(a))
	}
	return ""
}
