package main

// Engine side of the harness primitives (verif*), model extraction and witness rendering.

import (
	"fmt"
	"math/big"
	"strconv"
	"strings"
	"time"

	"golang.org/x/text/unicode/norm"
	"golang.org/x/text/width"
	"golang.org/x/tools/go/ssa"
)

type nopFuncV struct{}

var verifPrims map[string]intrinsicFn

func init() {
	verifPrims = map[string]intrinsicFn{
		"verifBytes":         pBytes,
		"verifBytesLen":      pBytesLen,
		"verifInt":           pInt,
		"verifIntRange":      pIntRange,
		"verifBool":          pBool,
		"verifAssume":        pAssume,
		"verifAssert":        pAssert,
		"verifReach":         pReach,
		"verifObserve":       pObserve,
		"verifObserveInt":    pObserveInt,
		"verifAnd":           func(x *Exec, fn *ssa.Function, a []Value) Value { return And(asTerm(a[0]), asTerm(a[1])) },
		"verifOr":            func(x *Exec, fn *ssa.Function, a []Value) Value { return Or(asTerm(a[0]), asTerm(a[1])) },
		"verifImplies":       func(x *Exec, fn *ssa.Function, a []Value) Value { return Implies(asTerm(a[0]), asTerm(a[1])) },
		"verifGolden":        pGolden,
		"verifGoldenIndex":   pGoldenIndex,
		"verifGoldenLang":    func(x *Exec, fn *ssa.Function, a []Value) Value { return BVi(int64(x.inst.Lang), 64) },
		"verifToken":         pToken,
		"verifByteToken":     pByteToken,
		"verifPre":           pPre,
		"verifSpell":         pSpell,
		"verifOpaque":        pOpaque,
		"verifNFKD":          func(x *Exec, fn *ssa.Function, a []Value) Value { return x.strNFKD(a[0]) },
		"verifSeedSpec":      pSeedSpec,
		"verifBytesEq":       func(x *Exec, fn *ssa.Function, a []Value) Value { return x.bytesEq(a[0].(SliceV), a[1].(SliceV)) },
		"verifRandBytes":     pRandBytes,
		"verifDefaultSource": func(x *Exec, fn *ssa.Function, a []Value) Value { return nopFuncV{} },
		"verifMark": func(x *Exec, fn *ssa.Function, a []Value) Value {
			if x.logEvents {
				x.events = append(x.events, AccessEvent{Sync: "mark:" + constString(a[0], "verifMark label")})
			}
			return nil
		},
		"verifPar": func(x *Exec, fn *ssa.Function, a []Value) Value {
			pre := 2
			if t := asTerm(a[2]); t.IsConst() {
				pre = int(t.Int64())
			}
			if x.logEvents {
				x.events = append(x.events, AccessEvent{Sync: "mark:par-begin"})
			}
			x.runPar([]Value{a[0], a[1]}, pre)
			if x.logEvents {
				x.events = append(x.events, AccessEvent{Sync: "mark:par-end"})
			}
			return nil
		},
		"verifGoldenList": func(x *Exec, fn *ssa.Function, a []Value) Value {
			return SliceV{Off: BVi(0, 64), Len: BVi(0, 64), Cap: BVi(0, 64)}
		},
		"verifStressRounds": func(x *Exec, fn *ssa.Function, a []Value) Value { return BVi(0, 64) },
		"verifVerdict":      nil, // executed from SSA
	}
	delete(verifPrims, "verifVerdict")
}

// harness functions named verif* that are ordinary Go and must be executed, not intercepted
var verifExecuted = map[string]bool{"verifVerdict": true, "verifWarm": true, "verifWarmN": true, "verifLangSel": true, "verifC12Op": true, "verifTokenNE": true, "verifHex": true, "verifToHex": true, "verifSentence12": true, "verifRespell": true}

func constString(v Value, what string) string {
	s, ok := v.(string)
	if !ok {
		panic(unsupported(what + " must be a concrete string"))
	}
	return s
}

func pBytes(x *Exec, fn *ssa.Function, a []Value) Value {
	name := constString(a[0], "verifBytes name")
	n := asTerm(a[1])
	if !n.IsConst() {
		panic(unsupported("verifBytes with symbolic length"))
	}
	k := int(n.Int64())
	arr := &ArrV{Elems: make([]Value, k)}
	ts := make([]*Term, k)
	for i := 0; i < k; i++ {
		ts[i] = Var(fmt.Sprintf("%s_%d", name, i), 8)
		arr.Elems[i] = ts[i]
	}
	x.inputs = append(x.inputs, Input{Name: name, Kind: "bytes", Terms: ts})
	o := x.newObj(name, nil, arr)
	return SliceV{Obj: o, Off: BVi(0, 64), Len: BVi(int64(k), 64), Cap: BVi(int64(k), 64)}
}

func pBytesLen(x *Exec, fn *ssa.Function, a []Value) Value {
	name := constString(a[0], "verifBytesLen name")
	mx := asTerm(a[1])
	ln := Var(name+".len", 64)
	x.addPC(Not(Slt(ln, BVi(0, 64))))
	if mx.IsConst() && mx.Int64() >= 0 {
		x.addPC(Sle(ln, mx))
	}
	o := x.newObj(name, nil, nil)
	o.Kind = OLazy
	o.LLen = ln
	o.Cells = map[int]*Term{}
	x.inputs = append(x.inputs, Input{Name: name + ".len", Kind: "int", Terms: []*Term{ln}})
	x.inputs = append(x.inputs, Input{Name: name, Kind: "lazybytes", Aux: name})
	x.lazies = append(x.lazies, o)
	return SliceV{Obj: o, Off: BVi(0, 64), Len: ln, Cap: ln}
}

func pInt(x *Exec, fn *ssa.Function, a []Value) Value {
	name := constString(a[0], "verifInt name")
	v := Var(name, 64)
	x.inputs = append(x.inputs, Input{Name: name, Kind: "int", Terms: []*Term{v}})
	return v
}

func pIntRange(x *Exec, fn *ssa.Function, a []Value) Value {
	v := pInt(x, fn, a).(*Term)
	lo, hi := asTerm(a[1]), asTerm(a[2])
	if lo.IsConst() && hi.IsConst() {
		in := &x.inputs[len(x.inputs)-1]
		in.HasRange, in.Lo, in.Hi = true, lo.Int64(), hi.Int64()
	}
	x.addPC(And(Sle(lo, v), Sle(v, hi)))
	if lo.IsConst() && hi.IsConst() && lo.Int64() >= 0 && hi.Int64() >= 0 && hi.Val.BitLen() < 63 {
		// give the term a tight bit-length bound: v = zext(low bits)
		w := hi.Val.BitLen()
		if w == 0 {
			w = 1
		}
		nv := ZExt(Extract(w-1, 0, v), 64)
		x.addPC(Eq(v, nv))
		return nv
	}
	return v
}

func pBool(x *Exec, fn *ssa.Function, a []Value) Value {
	name := constString(a[0], "verifBool name")
	v := Var(name, 0)
	x.inputs = append(x.inputs, Input{Name: name, Kind: "bool", Terms: []*Term{v}})
	return v
}

func pAssume(x *Exec, fn *ssa.Function, a []Value) Value {
	x.addPC(asTerm(a[0]))
	return nil
}

func pAssert(x *Exec, fn *ssa.Function, a []Value) Value {
	c := asTerm(a[0])
	label := constString(a[1], "verifAssert label")
	x.assert(c, label)
	return nil
}

func (x *Exec) assert(c *Term, label string) {
	if x.havoc {
		// reference-side re-execution: the implementation is stubbed, assertions about it mean nothing
		// and must not constrain the inputs
		return
	}
	c = x.simp(c)
	x.applyExcludes()
	x.nObl++
	x.inst.oblLabels[label]++
	if c.IsTrue() {
		x.nDischarged++
		x.nTrivial++
		return
	}
	r, vals := x.queryModel([]*Term{Not(c)})
	switch r {
	case "unsat":
		x.nDischarged++
	case "sat":
		x.recordFinding("assert", label, vals)
	default:
		x.nInconcl++
		x.note("solver unknown on assertion " + label + ": " + x.solver.lastErr)
	}
	if c.IsFalse() {
		panic(pathEnd{"done", "assertion " + label + " fails on every input of this path"})
	}
	x.addPC(c)
}

func pReach(x *Exec, fn *ssa.Function, a []Value) Value {
	label := constString(a[0], "verifReach label")
	r, vals := x.queryModel(nil)
	switch r {
	case "sat":
		x.nReach++
		x.inst.reached[label]++
		// a path that depended on a nondeterministic stub choice the native run cannot be steered into
		// (which pooled object sync.Pool hands out, the goroutine schedule) is not used for translator validation
		if len(x.inst.Witnesses) < x.inst.MaxWitnesses && !x.usedNondet {
			x.inst.Witnesses = append(x.inst.Witnesses, x.makeWitness(vals))
		}
	case "unsat":
		panic(pathEnd{"infeasible", "path condition unsatisfiable at reach point"})
	default:
		x.note("solver unknown at reach point")
	}
	return nil
}

func pObserve(x *Exec, fn *ssa.Function, a []Value) Value {
	x.observed = append(x.observed, Observed{Name: constString(a[0], "verifObserve name"), Str: a[1]})
	return nil
}

func pObserveInt(x *Exec, fn *ssa.Function, a []Value) Value {
	x.observed = append(x.observed, Observed{Name: constString(a[0], "verifObserveInt name"), Int: asTerm(a[1])})
	return nil
}

type Observed struct {
	Name string
	Str  Value
	Int  *Term
}

// goldenIDs: the interned IDs of the canonical list of language lg.
func (x *Exec) goldenIDs(lg int) []int {
	if ids, ok := x.inst.goldenIDs[lg]; ok {
		return ids
	}
	words := goldenList(lg)
	ids := make([]int, len(words))
	for i, w := range words {
		ids[i] = x.in.ID(w)
	}
	x.inst.goldenIDs[lg] = ids
	return ids
}

func constLang(v Value) int {
	t := asTerm(v)
	if !t.IsConst() {
		panic(unsupported("harness golden lookup with symbolic language"))
	}
	l := int(t.Int64())
	if l < 0 || l > 9 {
		panic(unsupported("harness golden lookup for unsupported language"))
	}
	return l
}

func pGolden(x *Exec, fn *ssa.Function, a []Value) Value {
	lg := constLang(a[0])
	idx := asTerm(a[1])
	if !idx.IsConst() && len(x.goldenIdx) < 64 {
		x.goldenIdx = append(x.goldenIdx, idx)
		x.goldenIdxLang = lg
	}
	x.addPC(Ult(idx, BVi(2048, 64)))
	return x.mkStr([]Atom{tabTok(idx, x.goldenIDs(lg))})
}

func pGoldenIndex(x *Exec, fn *ssa.Function, a []Value) Value {
	lg := constLang(a[0])
	ids := x.goldenIDs(lg)
	if s, ok := a[1].(string); ok {
		if hasWS(s) {
			return TupleV{BVi(0, 64), tFalse}
		}
		id := x.in.ID(s)
		for i, g := range ids {
			if g == id {
				return TupleV{BVi(int64(i), 64), tTrue}
			}
		}
		return TupleV{BVi(0, 64), tFalse}
	}
	as := toAtoms(a[1])
	if !simpleAtoms(as) {
		panic(unsupported("golden index of opaque text"))
	}
	toks, seps := splitTokens(as)
	if len(seps) > 0 {
		return TupleV{BVi(0, 64), tFalse}
	}
	id, ok := x.tokenID(toks[0])
	if !ok {
		return TupleV{BVi(0, 64), x.imprecise("golden index of composite token")}
	}
	vals := make([]int, len(ids))
	for i := range vals {
		vals[i] = i
	}
	v, in := pwApply(ids, vals, id, 64, BVi(0, 64))
	return TupleV{Ite(in, v, BVi(0, 64)), in}
}

func pToken(x *Exec, fn *ssa.Function, a []Value) Value {
	name := constString(a[0], "verifToken name")
	v := Var(name, IDW)
	x.inputs = append(x.inputs, Input{Name: name, Kind: "token", Terms: []*Term{v}})
	x.tokenVars = append(x.tokenVars, v)
	return x.mkStr([]Atom{{K: ATok, T: v}})
}

// pByteToken: a token spelled by L symbolic bytes, each an ASCII lowercase letter, that is none of the
// interned strings (in particular no word of any golden list). Its ID lies in the unknown-token space;
// code that inspects its text (len, indexing, range, []byte) sees the symbolic bytes.
func pByteToken(x *Exec, fn *ssa.Function, a []Value) Value {
	name := constString(a[0], "verifByteToken name")
	lt := asTerm(a[1])
	if !lt.IsConst() || lt.Int64() < 1 || lt.Int64() > 64 {
		panic(unsupported("verifByteToken length must be a constant in 1..64"))
	}
	L := int(lt.Int64())
	id := Var(name+".id", IDW)
	x.addPC(Ule(BVi(UnkBase+(1<<24), IDW), id))
	bs := make([]*Term, L)
	for i := range bs {
		bs[i] = Var(fmt.Sprintf("%s.b%d", name, i), 8)
		x.addPC(And(Ule(BVi('a', 8), bs[i]), Ule(bs[i], BVi('z', 8))))
	}
	for _, w := range x.in.strs {
		if len(w) != L {
			continue
		}
		lower := true
		for i := 0; i < L; i++ {
			if w[i] < 'a' || w[i] > 'z' {
				lower = false
				break
			}
		}
		if lower {
			x.addPC(Not(bytesEqConst(bs, w)))
		}
	}
	x.inputs = append(x.inputs, Input{Name: name, Kind: "bytetoken", Terms: bs})
	return &SymStr{A: []Atom{{K: ATok, T: id, B: bs}}}
}

func pPre(x *Exec, fn *ssa.Function, a []Value) Value {
	name := constString(a[0], "verifPre name")
	x.inputs = append(x.inputs, Input{Name: name + ".form", Kind: "preform"})
	return &SymStr{A: []Atom{{K: APre, S: name, Sub: toAtoms(a[1])}}}
}

func respell(s string, form int) string {
	switch form {
	case 1:
		return norm.NFC.String(s)
	case 2:
		return norm.NFD.String(s)
	case 3:
		return norm.NFKC.String(s)
	case 4:
		return strings.ReplaceAll(s, " ", "　")
	case 5:
		return width.Widen.String(s)
	case 6:
		return strings.ReplaceAll(s, " ", "\u00a0")
	case 7:
		return strings.Replace(strings.Replace(s, "a", "\u00aa", 1), "o", "\u00ba", 1)
	case 8:
		// only the last separator becomes a no-break space
		if i := strings.LastIndex(s, " "); i >= 0 {
			return s[:i] + "\u00a0" + s[i+1:]
		}
	case 9:
		return compatTwins(s)
	}
	return s
}

var compatTwinTab map[rune]rune

// compatTwins replaces every character that has a compatibility "twin" (CJK compatibility ideographs,
// Kangxi / CJK radicals, Hangul compatibility jamo, half-width forms ...) whose NFKD form is that single
// character by the twin.
func compatTwins(s string) string {
	if compatTwinTab == nil {
		t := map[rune]rune{}
		for _, rg := range [][2]rune{{0x2E80, 0x2FDF}, {0x3038, 0x303A}, {0x3131, 0x318E}, {0xF900, 0xFAFF}, {0xFF61, 0xFFDC}, {0x2F800, 0x2FA1D}} {
			for r := rg[0]; r <= rg[1]; r++ {
				d := []rune(norm.NFKD.String(string(r)))
				if len(d) == 1 && d[0] != r {
					if _, ok := t[d[0]]; !ok {
						t[d[0]] = r
					}
				}
			}
		}
		compatTwinTab = t
	}
	var sb strings.Builder
	for _, r := range s {
		if tw, ok := compatTwinTab[r]; ok {
			sb.WriteRune(tw)
		} else {
			sb.WriteRune(r)
		}
	}
	return sb.String()
}

func pSpell(x *Exec, fn *ssa.Function, a []Value) Value {
	f := asTerm(a[1])
	if !f.IsConst() {
		panic(unsupported("verifSpell with symbolic form"))
	}
	form := int(f.Int64())
	if s, ok := a[0].(string); ok {
		return respell(s, form)
	}
	as := toAtoms(a[0])
	if len(as) == 1 && as[0].K == ATok && as[0].Tab != nil {
		return x.mkStr([]Atom{x.liftTok(as[0], func(s string) string { return respell(s, form) }, "respelling")})
	}
	id, ok := x.tokenID(as)
	if !ok {
		panic(unsupported("verifSpell of composite token"))
	}
	n := len(x.in.strs)
	keys := make([]int, 0, n)
	vals := make([]int, 0, n)
	for i := 0; i < n; i++ {
		r := respell(x.in.strs[i], form)
		if hasWS(r) {
			x.requireInfeasible(Eq(id, BVi(int64(i), IDW)), "respelling introduces whitespace")
			continue
		}
		keys = append(keys, i)
		vals = append(vals, x.in.ID(r))
	}
	v, _ := pwApply(keys, vals, id, IDW, id)
	return x.mkStr([]Atom{{K: ATok, T: v}})
}

func pOpaque(x *Exec, fn *ssa.Function, a []Value) Value {
	name := constString(a[0], "verifOpaque name")
	x.inputs = append(x.inputs, Input{Name: name, Kind: "opaque"})
	return &SymStr{A: []Atom{{K: AOpq, S: name}}}
}

func pSeedSpec(x *Exec, fn *ssa.Function, a []Value) Value {
	pw := x.stringToBytes(a[0])
	salt := x.stringToBytes(a[1])
	var h Value
	for _, f := range x.P.Prog.AllPackages() {
		if f.Pkg.Path() == "crypto/sha512" {
			h = f.Func("New")
		}
	}
	return pbkdf2Key(x, fn, []Value{pw, salt, BVi(2048, 64), BVi(64, 64), h})
}

func pRandBytes(x *Exec, fn *ssa.Function, a []Value) Value {
	n := x.readerCalls
	arr := &ArrV{Elems: make([]Value, n)}
	ts := make([]*Term, n)
	for i := 0; i < n; i++ {
		ts[i] = Var(fmt.Sprintf("rand_%d", i), 8)
		arr.Elems[i] = ts[i]
	}
	found := false
	for _, in := range x.inputs {
		if in.Name == "rand" {
			found = true
		}
	}
	if !found {
		x.inputs = append(x.inputs, Input{Name: "rand", Kind: "bytes", Terms: ts})
	}
	o := x.newObj("randbytes", nil, arr)
	return SliceV{Obj: o, Off: BVi(0, 64), Len: BVi(int64(n), 64), Cap: BVi(int64(n), 64)}
}

// ---------------------------------------------------------------- models

// lateConstraints: token variables range over interned strings and the unknown-token space.
func (x *Exec) lateConstraints() []*Term {
	var out []*Term
	n := int64(len(x.in.strs))
	for _, v := range x.tokenVars {
		out = append(out, Or(Ult(v, BVi(n, IDW)), Ule(BVi(UnkBase, IDW), v)))
	}
	return out
}

func (x *Exec) modelTerms() []*Term {
	var ts []*Term
	for _, in := range x.inputs {
		ts = append(ts, in.Terms...)
	}
	for _, o := range x.lazies {
		for i := 0; i < 64; i++ {
			if c, ok := o.Cells[i]; ok {
				ts = append(ts, c)
			}
		}
	}
	for _, h := range x.happs {
		ts = append(ts, h.Len, h.Msg, h.App)
	}
	for _, ob := range x.observed {
		if ob.Int != nil {
			ts = append(ts, ob.Int)
		}
		if ob.Str != nil {
			ts = append(ts, strTerms(ob.Str)...)
		}
	}
	return ts
}

func strTerms(v Value) []*Term {
	s, ok := v.(*SymStr)
	if !ok {
		return nil
	}
	var ts []*Term
	var rec func(as []Atom)
	rec = func(as []Atom) {
		for _, a := range as {
			if a.T != nil {
				ts = append(ts, a.T)
			}
			rec(a.Sub)
		}
	}
	rec(s.A)
	return ts
}

// queryModel decides pc ∧ extra and, on sat, refines the SHA-256 abstraction until the model
// agrees with real SHA-256 on every H application (DESIGN §3.5).
func (x *Exec) queryModel(extra []*Term) (string, map[int]*big.Int) {
	want := x.modelTerms()
	var pins []*Term // try to keep the hashed messages of the previous model (then only the digest-dependent parts must adapt)
	for round := 0; round < 64; round++ {
		r, vals := x.query(append(append([]*Term{}, extra...), pins...), want)
		if r == "unsat" && pins != nil {
			pins = nil
			continue
		}
		if r != "sat" {
			return r, nil
		}
		m := make(map[int]*big.Int, len(want))
		for i, t := range want {
			m[t.id] = vals[i]
		}
		refined := false
		var newPins []*Term
		for _, h := range x.happs {
			ln, msg, app := m[h.Len.id], m[h.Msg.id], m[h.App.id]
			d, ok := realH(ln, msg)
			if !ok {
				// the model picked a length/message combination that is no byte string: exclude it
				x.hfacts = append(x.hfacts, Not(And(Eq(h.Len, BV(ln, HLenW)), Eq(h.Msg, BV(msg, HMsgW)))))
				refined = true
				continue
			}
			if d.Cmp(app) != 0 {
				x.hfacts = append(x.hfacts, Eq(UF("H", 256, BV(ln, HLenW), BV(msg, HMsgW)), BV(d, 256)))
				refined = true
			}
			newPins = append(newPins, Eq(h.Len, BV(ln, HLenW)), Eq(h.Msg, BV(msg, HMsgW)))
		}
		if !refined {
			x.cegarRounds += round
			return "sat", m
		}
		if pins == nil {
			pins = newPins
		} else {
			pins = nil
		}
	}
	x.note("CEGAR cap reached refining SHA-256")
	return "unknown", nil
}

func (x *Exec) query(extra []*Term, want []*Term) (string, []*big.Int) {
	// an instance whose budget is spent, or that keeps running into solver timeouts, stops here
	if x.inst != nil && !x.inst.deadline.IsZero() && time.Now().After(x.inst.deadline) {
		panic(pathEnd{"bound", "instance time budget exhausted inside a path"})
	}
	if x.inst != nil && x.inst.solverTimeouts >= 4 {
		panic(pathEnd{"bound", "four solver timeouts in this instance: giving up on it"})
	}
	r, v := x.query1(extra, want)
	if r == "unknown" && x.inst != nil && strings.Contains(x.solver.lastErr, "timeout") {
		x.inst.solverTimeouts++
	}
	return r, v
}

func (x *Exec) query1(extra []*Term, want []*Term) (string, []*big.Int) {
	as := make([]*Term, 0, len(x.pc)+len(x.hfacts)+len(extra)+len(x.tokenVars))
	for _, t := range x.pc {
		as = append(as, x.simp(t))
	}
	as = append(as, x.hfacts...)
	as = append(as, x.lateConstraints()...)
	for _, t := range extra {
		as = append(as, x.simp(t))
	}
	for n, v := range x.env {
		// keep pinned variables pinned in the solver's model too
		for _, w := range want {
			if w.Op == "var" && w.Name == n {
				as = append(as, Eq(w, BV(v, w.W)))
			}
		}
	}
	return x.solver.Check(as, want)
}

// realH computes SHA-256 of the ln-byte big-endian rendering of msg; ok=false if msg does not fit.
func realH(ln, msg *big.Int) (*big.Int, bool) {
	if !ln.IsInt64() || ln.Int64() > 64 {
		return nil, false
	}
	n := int(ln.Int64())
	if msg.BitLen() > 8*n {
		return nil, false
	}
	buf := make([]byte, n)
	msg.FillBytes(buf)
	d := sha256sum(buf)
	return new(big.Int).SetBytes(d[:]), true
}

// nativeValues converts a model into the JSON-able vector values.
func (x *Exec) nativeValues(m map[int]*big.Int) map[string]interface{} {
	out := map[string]interface{}{}
	val := func(t *Term) *big.Int {
		if t.IsConst() {
			return t.Val
		}
		if v, ok := m[t.id]; ok {
			return v
		}
		return big.NewInt(0)
	}
	for _, in := range x.inputs {
		switch in.Kind {
		case "bytes":
			bs := make([]int, len(in.Terms))
			for i, t := range in.Terms {
				bs[i] = int(val(t).Int64())
			}
			out[in.Name] = bs
		case "int":
			out[in.Name] = toSigned(val(in.Terms[0]), 64).Int64()
		case "bool":
			out[in.Name] = val(in.Terms[0]).Sign() != 0
		case "token":
			out[in.Name] = x.tokenString(val(in.Terms[0]))
		case "bytetoken":
			bs := make([]byte, len(in.Terms))
			for i, t := range in.Terms {
				bs[i] = byte(val(t).Int64())
				if bs[i] < 'a' || bs[i] > 'z' {
					bs[i] = 'q' // unconstrained in the model: any letter
				}
			}
			out[in.Name] = string(bs)
		case "lazybytes":
			for _, o := range x.lazies {
				if o.Name != in.Aux {
					continue
				}
				n := toSigned(val(o.LLen), 64).Int64()
				if n > 1<<16 {
					n = 1 << 16 // the native side allocates by the .len value; contents beyond are zero
				}
				mx := 0
				for i := range o.Cells {
					if i+1 > mx {
						mx = i + 1
					}
				}
				if int64(mx) > n {
					mx = int(n)
				}
				bs := make([]int, mx)
				for i := 0; i < mx; i++ {
					if c, ok := o.Cells[i]; ok {
						bs[i] = int(val(c).Int64())
					}
				}
				out[in.Name] = bs
			}
		case "env":
			if val(in.Terms[0]).Sign() != 0 {
				out[in.Name] = ""
			} else {
				out[in.Name] = "@FILE"
			}
		case "opaque":
			out[in.Name] = x.inst.opaquePick(in.Name)
		case "preform":
			out[in.Name] = x.inst.formPick(in.Name)
		}
	}
	out["goldenlang"] = x.inst.Lang
	return out
}

func (x *Exec) tokenString(id *big.Int) string {
	if id.IsInt64() {
		if s, ok := x.in.Str(int(id.Int64())); ok {
			return s
		}
	}
	// a token that is no interned string: deterministic, NFKD-stable, whitespace-free text of varied shape
	n := new(big.Int).Sub(id, big.NewInt(UnkBase))
	ns := n.String()
	switch new(big.Int).Mod(n, big.NewInt(8)).Int64() {
	case 6:
		return "100%s" + ns + "%d"
	case 7:
		return "%" + ns + "%v%"
	case 1:
		return strings.Repeat("あ", 15) + ns // > 40 bytes, < 40 runes
	case 2:
		return strings.Repeat("a", 50) + ns
	case 3:
		return "e\u0323\u0301q" + ns // combining marks in canonical order
	case 4:
		return "かな" + ns
	case 5:
		return "ABANDON" + ns
	}
	return "zq" + ns + "x"
}

// evalStr renders a string value under a model (for predicted-vs-actual validation).
func (x *Exec) evalStr(v Value, m map[int]*big.Int, vals map[string]interface{}) string {
	if s, ok := v.(string); ok {
		return s
	}
	val := func(t *Term) *big.Int {
		if t.IsConst() {
			return t.Val
		}
		if r, ok := m[t.id]; ok {
			return r
		}
		return big.NewInt(0)
	}
	var rec func(as []Atom) string
	rec = func(as []Atom) string {
		var sb strings.Builder
		for _, a := range as {
			switch a.K {
			case ALit, ASep:
				sb.WriteString(a.S)
			case ATok:
				if a.B != nil {
					for _, t := range a.B {
						c := byte(val(t).Int64())
						if c < 'a' || c > 'z' {
							c = 'q'
						}
						sb.WriteByte(c)
					}
					break
				}
				sb.WriteString(x.tokenString(val(a.T)))
			case AItoa:
				sb.WriteString(strconv.FormatInt(toSigned(val(a.T), 64).Int64(), 10))
			case AOpq:
				if s, ok := vals[a.S].(string); ok {
					sb.WriteString(s)
				}
			case ANorm:
				sb.WriteString(norm.NFKD.String(rec(a.Sub)))
			case APre:
				form := 0
				if f, ok := vals[a.S+".form"].(int); ok {
					form = f
				}
				sb.WriteString(respell(rec(a.Sub), form))
			}
		}
		return sb.String()
	}
	return rec(toAtoms(v))
}

type Witness struct {
	Values  map[string]interface{}
	Predict map[string]string
}

func (x *Exec) makeWitness(m map[int]*big.Int) Witness {
	vals := x.nativeValues(m)
	w := Witness{Values: vals, Predict: map[string]string{}}
	for _, ob := range x.observed {
		if ob.Int != nil {
			v := ob.Int.Val
			if !ob.Int.IsConst() {
				v = m[ob.Int.id]
			}
			if v != nil {
				w.Predict[ob.Name] = toSigned(v, 64).String()
			}
			continue
		}
		if !simpleOrPre(ob.Str) {
			continue
		}
		w.Predict[ob.Name] = x.evalStr(ob.Str, m, vals)
	}
	return w
}

func simpleOrPre(v Value) bool {
	s, ok := v.(*SymStr)
	if !ok {
		return true
	}
	for _, a := range s.A {
		if a.K == AOpq || a.K == ANorm {
			return false
		}
	}
	return true
}

func (x *Exec) recordFinding(kind, label string, m map[int]*big.Int) {
	for _, f := range x.inst.Findings {
		if f.Kind == kind && f.Label == label && len(x.inst.Findings) >= x.inst.MaxFindingsPerLabel {
			_ = f
		}
	}
	n := 0
	for _, f := range x.inst.Findings {
		if f.Kind == kind && f.Label == label {
			n++
		}
	}
	if n >= x.inst.MaxFindingsPerLabel {
		x.inst.suppressed++
		return
	}
	w := x.makeWitness(m)
	x.inst.Findings = append(x.inst.Findings, Finding{Kind: kind, Label: label, Values: w.Values, Predict: w.Predict, Trace: append([]Decision{}, x.trace...)})
}
