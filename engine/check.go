package main

import (
	"bufio"
	"encoding/json"
	"fmt"
	"os"
	"os/signal"
	"path/filepath"
	"runtime/pprof"
	"sort"
	"strconv"
	"strings"
	"sync"
	"time"
)

type Config struct {
	Tier     string
	Seed     int
	Solvers  []string
	Timeout  int
	Workers  int
	Verbose  bool
	Property string
}

type PropertySpec struct {
	ID        string
	Level     string
	Instances func(tier string) []*Instance
	Labels    map[string]bool // assertion labels that belong to this property (nil = all)
	Bounds    []string
	Outside   []string
	Stubs     []string
	Explain   string
	Post      func(c *CheckRun) // extra structural checks (footprints etc.)
	Panics    bool              // reachable panics count as violations of this property
}

var sizesL = []int64{16, 20, 24, 28, 32}
var sizesN = []int64{12, 15, 18, 21, 24}

func allLangs() []int64 { return []int64{0, 1, 2, 3, 4, 5, 6, 7, 8, 9} }

func instLS(h string, langs []int64, sizes []int64, extra ...int64) []*Instance {
	var out []*Instance
	for _, l := range langs {
		for _, s := range sizes {
			a := append([]int64{l, s}, extra...)
			out = append(out, &Instance{Harness: h, Args: a, Lang: int(l), MaxWitnesses: 1})
		}
	}
	return out
}

func counts0to27() []int64 {
	var c []int64
	for i := int64(0); i <= 27; i++ {
		c = append(c, i)
	}
	return c
}

const (
	stubSHA  = "crypto/sha256: uninterpreted function H(len,msg) refined with real digests on every sat model (CEGAR)"
	stubBig  = "math/big: 384-bit sign/magnitude bit-vector model with overflow obligations; differential self-test against the library in setup"
	stubStr  = "strings/fmt/strconv: token-sequence model (Join, Split on whitespace rune, Fields, Contains on tokens, Errorf %s %d %v %w, Itoa)"
	stubNFKD = "norm.NFKD.String: acts token-wise; U+3000,U+0020 -> U+0020; list words via table lifting with the real library; idempotent on opaque text"
	stubK    = "pbkdf2.Key: uninterpreted deterministic function of (password, salt, iter, keyLen, hash ctor); fresh result slice"
	stubOnce = "sync.Once.Do: runs f exactly once, completion happens-before every return (Go memory model)"
	stubRand = "crypto/rand.Reader: opaque object; Read fills the whole buffer with arbitrary bytes and returns nil"
)

func c03Instances(h string) func(string) []*Instance {
	return func(tier string) []*Instance {
		var out []*Instance
		if tier == "thorough" {
			out = instLS(h, allLangs(), counts0to27(), -1)
		} else {
			out = instLS(h, []int64{2, 5}, counts0to27(), -1)
			out = append(out, instLS(h, []int64{0, 1, 3, 4, 6, 7, 8, 9}, []int64{11, 12, 15, 18, 21, 24, 25}, -1)...)
		}
		// an extra separator (leading, trailing, doubled in the middle) around the count boundaries
		gl := []int64{2, 5}
		if tier == "thorough" {
			gl = allLangs()
		}
		for _, l := range gl {
			for _, n := range []int64{11, 12, 14, 23, 24} {
				for _, g := range []int64{0, n / 2, n} {
					out = append(out, &Instance{Harness: h, Args: []int64{l, n, g}, Lang: int(l), MaxWitnesses: 1})
				}
			}
		}
		return out
	}
}

var c03Labels = map[string]bool{"isvalid-iff-nil": true, "accepted-implies-wellformed": true, "two-last-words-same-entropy-both-accepted": true,
	"non-list-token-rejected": true, "non-list-token-invalid": true}

// c03ByteInstances: sentences with one non-list token of L arbitrary lowercase letters (H_C03_bytes).
func c03ByteInstances(tier string) []*Instance {
	var out []*Instance
	langs := []int64{2}
	sizes := []int64{12, 24}
	lens := []int64{3, 7}
	if tier == "thorough" {
		langs = []int64{2, 3, 5, 8}
		sizes = sizesN
		lens = []int64{3, 4, 5, 6, 7, 8}
	}
	for _, l := range langs {
		for _, n := range sizes {
			for _, L := range lens {
				for _, pos := range []int64{0, n - 1} {
					for _, sym := range []int64{1, 0} {
						out = append(out, &Instance{Harness: "H_C03_bytes", Args: []int64{l, n, L, pos, sym}, Lang: int(l), MaxWitnesses: 1})
					}
				}
			}
		}
	}
	return out
}
var c15Labels = map[string]bool{"first-language-verdict": true, "second-language-accepts-iff-wellformed-in-that-language": true, "second-language-unknown-word-error": true, "first-language-verdict-again": true,
	"count-defect-gives-ErrWordLen": true, "checksum-defect-gives-ErrChecksumIncorrect": true,
	"unknown-word-gives-other-error-naming-it": true, "accepted-implies-wellformed": true,
	"unknown-token-gives-other-error": true, "error-names-the-token": true}

func properties() map[string]*PropertySpec {
	ps := map[string]*PropertySpec{}
	ps["C01"] = &PropertySpec{ID: "C01", Level: "model_checking",
		Instances: func(tier string) []*Instance { return instLS("H_C01", allLangs(), sizesL) },
		Bounds:    []string{"entropy length in {16,20,24,28,32} (all accepted lengths), all bytes symbolic", "10 languages", "loops unrolled fully (<=24 words, <=264 bits), unwinding bound 5000 never hit", "big.Int width 384 bits with overflow obligations"},
		Outside:   []string{"the inside of SHA-256 (uninterpreted)"},
		Stubs:     []string{stubSHA, stubBig, stubStr},
	}
	ps["C05"] = &PropertySpec{ID: "C05", Level: "model_checking",
		Instances: func(tier string) []*Instance { return instLS("H_C05", allLangs(), sizesL) },
		Bounds:    ps["C01"].Bounds, Outside: ps["C01"].Outside, Stubs: ps["C01"].Stubs,
	}
	ps["C02"] = &PropertySpec{ID: "C02", Level: "model_checking",
		Instances: func(tier string) []*Instance {
			out := instLS("H_C02_roundtrip", allLangs(), sizesL)
			out = append(out, instLS("H_C02_newmnemonic", allLangs(), sizesN)...)
			out = append(out, instLS("H_C02_complete", allLangs(), sizesN)...)
			return out
		},
		Bounds:  []string{"all entropies of the five lengths / all sentences of 12..24 canonical words with a valid checksum, 10 languages", "NewMnemonic route: source delivers everything in one read"},
		Outside: []string{"the inside of SHA-256 (uninterpreted)", "NFKD of canonical words is computed with the real library per list entry (table lifting)"},
		Stubs:   []string{stubSHA, stubBig, stubStr, stubNFKD, stubOnce},
	}
	ps["C03"] = &PropertySpec{ID: "C03", Level: "model_checking",
		Instances: func(tier string) []*Instance {
			out := c03Instances("H_C03")(tier)
			out = append(out, instLS("H_C03_count", allLangs(), sizesN)...)
			out = append(out, c03ByteInstances(tier)...)
			return out
		},
		Labels:  c03Labels,
		Bounds:  []string{"input = any string whose NFKD form is n non-empty tokens separated by single U+0020, n = 0..27 (quick: all n for English and Japanese, n in {11,12,15,18,21,24,25} for the other eight), optionally with one extra separator (leading, trailing or doubled in the middle) for n in {11,12,14,23,24}", "each token: any canonical word, any other interned string, or an arbitrary non-member token", "byte-level tokens (H_C03_bytes): one token of L arbitrary lowercase ASCII letters that is no list word (quick: English, L in {3,7}, 12 and 24 words, first or last position; thorough: four languages, L = 3..8, all sizes), the other words canonical with symbolic or fixed indices; len, indexing, range and []byte conversion of that token are encoded byte by byte, integer-keyed maps with a symbolic key as first-match chains"},
		Outside: []string{"n >= 28 tokens", "apart from the byte-level token, tokens are observed only through equality/map membership (code inspecting characters of other tokens is reported inconclusive)", "inverting a 32-bit multiplicative hash of the token bytes inside the engine: z3 answered unknown at 60 s in both the incremental and the one-shot process (a stand-alone query took 4-75 s), so a hash-collision acceptance is reported inconclusive, not decided", "non-SP whitespace inside the normal form is covered only as part of a non-member token"},
		Stubs:   []string{stubSHA, stubBig, stubStr, stubNFKD, stubOnce},
	}
	ps["C15"] = &PropertySpec{ID: "C15", Level: "model_checking",
		Instances: func(tier string) []*Instance {
			out := c03Instances("H_C03")(tier)
			for _, pr := range [][2]int64{{2, 3}, {3, 2}, {7, 2}} {
				out = append(out, &Instance{Harness: "H_C13_xlang", Args: []int64{pr[0], pr[1], 12}, Lang: int(pr[0]), MaxWitnesses: 1})
			}
			out = append(out, c03ByteInstances(tier)...)
			return out
		},
		Labels: c15Labels,
		Bounds: ps["C03"].Bounds, Outside: ps["C03"].Outside, Stubs: ps["C03"].Stubs,
	}
	ps["C09"] = &PropertySpec{ID: "C09", Level: "model_checking", Panics: true,
		Instances: func(tier string) []*Instance {
			var out []*Instance
			for _, l := range allLangs() {
				out = append(out, &Instance{Harness: "H_C09_entropy", Args: []int64{l}, Lang: int(l), MaxWitnesses: 2})
				out = append(out, &Instance{Harness: "H_C09_entropy_any", Args: []int64{l}, Lang: int(l), MaxWitnesses: 2})
				out = append(out, &Instance{Harness: "H_C09_count", Args: []int64{l}, Lang: int(l), MaxWitnesses: 2})
			}
			return out
		},
		Bounds:  []string{"entropy length: every non-negative int64 (gate), contents symbolic for lengths <= 40", "word count: every int64", "10 languages"},
		Outside: []string{"nil vs empty slice are not distinguished (len is all the code can observe)"},
		Stubs:   []string{stubSHA, stubBig, stubStr},
	}
	ps["C16"] = &PropertySpec{ID: "C16", Level: "model_checking", Panics: true,
		Instances: func(tier string) []*Instance {
			return []*Instance{{Harness: "H_C16", Lang: 2, MaxWitnesses: 12, CheckPanics: false}}
		},
		Bounds: []string{"every int64 value of Language"},
		Stubs:  []string{stubStr},
	}
	ps["C04"] = &PropertySpec{ID: "C04", Level: "other",
		Instances: func(tier string) []*Instance {
			return []*Instance{{Harness: "H_C04", Lang: 2, MaxWitnesses: 1}, {Harness: "H_C04_split", Lang: 2, MaxWitnesses: 1}}
		},
		Bounds:  []string{"m, p: arbitrary opaque strings (no bound on content or length) for the unsat direction"},
		Outside: []string{"the insides of NFKD and PBKDF2-HMAC-SHA512 (stubs with contracts)", "counterexamples are concretised from a pool of spelled strings"},
		Stubs:   []string{stubNFKD, stubK},
		Explain: "MnemonicToSeed is executed symbolically from its SSA with the two arguments as opaque text; the solver/structural congruence decides that the call it makes equals K(bytes(N(m)), bytes(\"mnemonic\"++N(p)), 2048, 64, sha512.New) argument by argument, that no branch depends on m (one path), and that two calls return distinct objects. The repository's share of this property is one line of wiring, so the solver's part is thin; the dependency's behaviour is a stated assumption, kept honest by native replays against x/crypto/pbkdf2 on a pool of strings.",
	}
	ps["C11"] = &PropertySpec{ID: "C11", Level: "other",
		Instances: func(tier string) []*Instance {
			out := []*Instance{{Harness: "H_C11", Lang: 2, MaxWitnesses: 1}}
			ns := []int64{12}
			if tier == "thorough" {
				ns = sizesN
			}
			for _, f := range []int64{1, 2, 3, 5} {
				out = append(out, instLS("H_C11_spelled", allLangs(), ns, f)...)
			}
			return out
		},
		Bounds:  []string{"(a) any two (m,p) pairs with equal NFKD forms, opaque text", "(b) sentences of canonical words (all indices symbolic) respelled in NFC/NFD/NFKC/full-width, U+0020 or U+3000 separators; quick: 12 words, thorough: 12..24"},
		Outside: []string{"the insides of NFKD and PBKDF2", "mixed spellings within one sentence"},
		Stubs:   []string{stubNFKD, stubK},
		Explain: "Same scheme as C04 on pairs of inputs: results are compared as uninterpreted K-terms modulo the NFKD contract; the spelled-variant instances lift the real NFKD/NFC/NFD/NFKC/width tables over all 2048 entries of each list so the word index stays symbolic.",
	}
	ps["C10"] = &PropertySpec{ID: "C10", Level: "model_checking",
		Instances: func(tier string) []*Instance {
			var out []*Instance
			if tier == "thorough" {
				out = instLS("H_C10_pre", allLangs(), counts0to27())
			} else {
				out = instLS("H_C10_pre", []int64{2, 5, 6}, []int64{0, 1, 11, 12, 13, 15, 18, 21, 24, 25})
				out = append(out, instLS("H_C10_pre", []int64{0, 1}, []int64{12, 24})...)
			}
			ns := []int64{12}
			if tier == "thorough" {
				ns = sizesN
			}
			for _, f := range []int64{1, 2, 3, 5} {
				out = append(out, instLS("H_C10_spelled", allLangs(), ns, f)...)
			}
			if tier == "thorough" {
				out = append(out, instLS("H_C10_spelled", []int64{0, 1, 5, 6}, ns, 9)...)
			}
			if tier != "thorough" {
				// the scripts whose NFKD form is much longer than the typed form, at the long sizes
				out = append(out, instLS("H_C10_spelled", []int64{5, 6}, []int64{18, 24}, 1)...)
				out = append(out, instLS("H_C10_spelled", []int64{5, 6}, []int64{24}, 3)...)
				out = append(out, instLS("H_C10_spelled", []int64{5, 6}, []int64{24}, 2)...)
				// compatibility twins (CJK compatibility ideographs, radicals, compatibility jamo, half-width kana)
				out = append(out, instLS("H_C10_spelled", []int64{0, 1, 5, 6}, []int64{12}, 9)...)
			}
			return out
		},
		Bounds:  []string{"(a) any two strings with the same NFKD token sequence (tokens as in C03)", "(b) valid sentences of canonical words (indices symbolic) respelled in NFC/NFD/NFKC/full-width with U+0020 or U+3000; quick 12 words, thorough 12..24"},
		Outside: []string{"raw strings whose normal form gains separators are covered by (a) only", "mixed spellings within one sentence"},
		Stubs:   []string{stubSHA, stubBig, stubStr, stubNFKD, stubOnce},
	}
	ps["C06"] = &PropertySpec{ID: "C06", Level: "model_checking",
		Instances: func(tier string) []*Instance {
			var out []*Instance
			if tier == "thorough" {
				for _, l := range []int64{2, 5} {
					for _, n := range sizesN {
						out = append(out, &Instance{Harness: "H_C06", Args: []int64{l, n, 6}, Lang: int(l), MaxWitnesses: 2})
					}
				}
				out = append(out, instLS("H_C06", []int64{0, 1, 3, 4, 6, 7, 8, 9}, sizesN, 3)...)
			} else {
				out = instLS("H_C06", []int64{2, 5}, sizesN, 4)
				out = append(out, instLS("H_C06", []int64{0, 1, 3, 4, 6, 7, 8, 9}, []int64{12, 24}, 2)...)
			}
			// a source that fails persistently after an optional short first delivery (up to 8 / 16 reads)
			if tier == "thorough" {
				out = append(out, instLS("H_C06_stuck", allLangs(), sizesN, 16)...)
			} else {
				out = append(out, instLS("H_C06_stuck", []int64{2, 5}, []int64{12, 24}, 8)...)
			}
			// one-byte fragmentation of the whole delivery, with idle reads first (up to 35 Read calls)
			if tier == "thorough" {
				for _, z := range []int64{0, 1, 3} {
					out = append(out, instLS("H_C06_trickle", []int64{2, 5}, sizesN, z)...)
				}
			} else {
				out = append(out, instLS("H_C06_trickle", []int64{2}, []int64{12, 24}, 0)...)
				out = append(out, instLS("H_C06_trickle", []int64{2}, []int64{12, 24}, 1)...)
			}
			return out
		},
		Bounds:  []string{"word count n in {12,15,18,21,24}", "at most R Read calls per NewMnemonic with symbolic fragment sizes and failures (quick R=4 for English/Japanese, R=2 others; thorough R=6 for English/Japanese, R=3 others)", "plus the fixed one-byte fragmentation of the whole delivery preceded by z idle reads (4n/3+z calls, z<=1 quick, z<=3 thorough; delivered bytes symbolic)", "stuck source (H_C06_stuck): optional first delivery of k0 < 4n/3 bytes, then every read fails the same way (EOF / unexpected EOF / other / temporary) with no bytes, up to 8 reads quick, 16 thorough", "each Read: symbolic fragment size 0..len(p), symbolic outcome nil/io.EOF/io.ErrUnexpectedEOF/other error/error that calls itself temporary, bytes may accompany an error", "io.ReadFull / io.ReadAtLeast executed from their real SSA"},
		Outside: []string{"sources needing more than R reads (paths end in an assumption)", "readers violating the io.Reader contract (n > len(p), n < 0)"},
		Stubs:   []string{stubSHA, stubBig, stubStr},
	}
	ps["C07"] = &PropertySpec{ID: "C07", Level: "other",
		Instances: func(tier string) []*Instance { return instLS("H_C07", allLangs(), sizesN) },
		Bounds:    []string{"every language and accepted word count, from the post-init state"},
		Outside:   []string{"statistics of the OS source", "other packages assigning the variable (it is unexported)"},
		Stubs:     []string{stubRand, stubSHA, stubBig, stubStr},
		Post:      c07Post,
		Explain:   "Package init and NewMnemonic are executed symbolically with crypto/rand.Reader as an opaque object whose Read yields fresh symbolic bytes: the solver decides that the sentence equals the BIP39 encoding of exactly those 4n/3 bytes (nothing else mixed in); object identity of the source variable with crypto/rand.Reader after init and after the call is structural; the write log of every explored path of every exported function must not contain the source variable.",
	}
	ps["C08"] = &PropertySpec{ID: "C08", Level: "model_checking",
		Instances: func(tier string) []*Instance {
			var out []*Instance
			for _, l := range allLangs() {
				out = append(out, &Instance{Harness: "H_C08", Args: []int64{l}, Lang: int(l), MaxWitnesses: 2})
			}
			return out
		},
		Bounds:  []string{"10 languages x every index 0..2047 (symbolic), observed through NewMnemonicByEntropy and CheckMnemonic", "golden lists = /verif/golden (digests in SHA256SUMS; english matches the published upstream digest)"},
		Outside: []string{"upstream cannot be re-fetched offline: a defect already present in the pinned lists would be invisible"},
		Stubs:   []string{stubSHA, stubBig, stubStr, stubNFKD, stubOnce},
		Post:    c08Post,
	}
	ps["C13"] = &PropertySpec{ID: "C13", Level: "model_checking",
		Instances: func(tier string) []*Instance {
			var out []*Instance
			if tier == "thorough" {
				// two symbolic earlier first-uses for English/Japanese at the smallest size, one elsewhere
				out = instLS("H_C13_entropy", allLangs(), sizesL, 1)
				out = append(out, instLS("H_C13_entropy", []int64{2, 5}, []int64{16}, 2)...)
				out = append(out, instLS("H_C13_check", allLangs(), []int64{11, 12, 15, 18, 21, 24}, 1)...)
				out = append(out, instLS("H_C13_check", []int64{2, 5}, []int64{12}, 2)...)
			} else {
				out = instLS("H_C13_entropy", allLangs(), []int64{16}, 1)
				out = append(out, instLS("H_C13_check", allLangs(), []int64{12}, 1)...)
			}
			out = append(out, &Instance{Harness: "H_C13_seed", Lang: 2, MaxWitnesses: 1})
			out = append(out, &Instance{Harness: "H_C04_split", Lang: 2, MaxWitnesses: 1})
			for _, pr := range [][2]int64{{2, 3}, {3, 2}, {0, 1}, {5, 2}} {
				out = append(out, &Instance{Harness: "H_C13_xlang", Args: []int64{pr[0], pr[1], 12}, Lang: int(pr[0]), MaxWitnesses: 1})
			}
			seqL := []int64{2, 5}
			if tier == "thorough" {
				seqL = allLangs()
			}
			for _, l := range seqL {
				out = append(out, &Instance{Harness: "H_C13_seq", Args: []int64{l, 12, 12}, Lang: int(l), MaxWitnesses: 1})
				out = append(out, &Instance{Harness: "H_C13_seq", Args: []int64{l, 12, 15}, Lang: int(l), MaxWitnesses: 1})
				out = append(out, &Instance{Harness: "H_C13_seq_gen", Args: []int64{l, 12, 16}, Lang: int(l), MaxWitnesses: 1})
				if tier == "thorough" {
					out = append(out, &Instance{Harness: "H_C13_seq", Args: []int64{l, 24, 12}, Lang: int(l), MaxWitnesses: 1})
					out = append(out, &Instance{Harness: "H_C13_seq", Args: []int64{l, 15, 24}, Lang: int(l), MaxWitnesses: 1})
					out = append(out, &Instance{Harness: "H_C13_seq_gen", Args: []int64{l, 24, 32}, Lang: int(l), MaxWitnesses: 1})
				}
			}
			return out
		},
		Bounds:  []string{"history = one earlier first use of an arbitrary language (symbolic, incl. none/unsupported; thorough: two for English/Japanese at the smallest size) then the call, then further calls", "plus footprint induction: every path of every exported call writes only the once/map pair of its own language", "sizes: quick 16-byte entropy / 12 tokens, thorough all sizes"},
		Outside: []string{"histories are covered through the footprint argument, not enumerated"},
		Stubs:   []string{stubSHA, stubBig, stubStr, stubNFKD, stubOnce, stubK},
		Post:    c13Post,
	}
	ps["C12"] = &PropertySpec{ID: "C12", Level: "model_checking",
		Instances: c12Instances,
		Post:      c12Post,
		Bounds:    []string{"2 goroutines, one exported call each, from a cold (post-init) process", "calls: 8 shapes (valid-shaped/unknown-word/wrong-count CheckMnemonic, IsMnemonicValid, NewMnemonicByEntropy, NewMnemonic, MnemonicToSeed, String) with symbolic arguments", "language pairs: quick = same language and the next one for each of 10 languages, thorough = all 100 ordered pairs", "either call may win the first use (both orders are instances)", "all interleavings: the schedule is not enumerated, happens-before is decided by the solver as the least relation closed under program order, sync.Once edges and transitivity"},
		Outside:   []string{"3 or more goroutines (each further call meets a warm state: covered by C13's inductive step, not here)", "synchronisation other than sync.Once (mutexes/atomics get no edges and are flagged)", "goroutines started inside the API (unsupported -> inconclusive)"},
		Stubs:     []string{stubOnce, stubSHA, stubBig, stubStr, stubNFKD, stubK, stubRand},
	}
	ps["C14"] = &PropertySpec{ID: "C14", Level: "model_checking", Panics: true,
		Instances: func(tier string) []*Instance {
			out := []*Instance{
				{Harness: "H_C14_String", Lang: 2, MaxWitnesses: 2},
				{Harness: "H_C14_Seed", Lang: 2, MaxWitnesses: 1},
			}
			// hostile byte strings (invalid UTF-8 of several shapes) as one token among canonical words
			for kind := int64(0); kind < 8; kind++ {
				for _, pos := range []int64{0, 11} {
					out = append(out, &Instance{Harness: "H_C14_hostile", Args: []int64{2, 12, pos, kind}, Lang: 2, MaxWitnesses: 1})
					if tier == "thorough" {
						out = append(out, &Instance{Harness: "H_C14_hostile", Args: []int64{5, 12, pos, kind}, Lang: 5, MaxWitnesses: 1})
						out = append(out, &Instance{Harness: "H_C14_hostile", Args: []int64{2, 24, 2 * pos, kind}, Lang: 2, MaxWitnesses: 1})
					}
				}
			}
			ns := []int64{0, 1, 11, 12, 13, 15, 16, 24, 25, 27}
			if tier == "thorough" {
				ns = counts0to27()
			}
			for _, sel := range []int64{0, 1, 2, 3, 4, 5, 6, 7, 8, 9, -1} {
				lang := int(sel)
				if sel < 0 {
					lang = 2
				}
				if sel == 2 || sel == 5 || (tier == "thorough" && sel >= 0) {
					out = append(out, &Instance{Harness: "H_C13_seq", Args: []int64{sel, 12, 15}, Lang: lang, MaxWitnesses: 1})
					out = append(out, &Instance{Harness: "H_C13_seq", Args: []int64{sel, 15, 12}, Lang: lang, MaxWitnesses: 1})
				}
				out = append(out, &Instance{Harness: "H_C14_Entropy", Args: []int64{sel}, Lang: lang, MaxWitnesses: 1})
				out = append(out, &Instance{Harness: "H_C14_New", Args: []int64{sel, 2}, Lang: lang, MaxWitnesses: 1})
				for _, n := range ns {
					if tier != "thorough" && sel >= 0 && sel != 2 && sel != 5 && n != 12 && n != 13 && n != 24 {
						continue
					}
					out = append(out, &Instance{Harness: "H_C14_Check", Args: []int64{sel, n}, Lang: lang, MaxWitnesses: 1})
				}
			}
			return out
		},
		Bounds:  []string{"Language: every int64", "word count: every int64", "entropy: every length 0..40 with symbolic contents", "sentences: token sequences of n tokens (quick n in {0,1,11,12,13,15,16,24,25,27}, thorough 0..27), the raw text any pre-image of the normal form (counts of a whitespace rune in the raw text: any value up to the number of separators)", "hostile tokens (H_C14_hostile): eight concrete invalid-UTF-8 byte strings (runs of continuation bytes, lone 0xFF, truncated sequence, overlong and surrogate encodings, NUL, beyond U+10FFFF) as the first or last token among canonical words with symbolic indices", "reader: <=2 reads with symbolic fragment and failure", "every index, slice, nil-map, nil-deref, division, shift, type-assertion and big.Int precondition on every path is an SMT obligation"},
		Outside: []string{"NFKD and PBKDF2 assumed total and terminating on every byte string", "huge inputs (memory exhaustion)"},
		Stubs:   []string{stubSHA, stubBig, stubStr, stubNFKD, stubOnce, stubK},
	}
	return ps
}

// ---------------------------------------------------------------- findings file

type KnownFinding struct {
	Status   string `json:"status"` // known | fixed
	Property string `json:"property"`
	Commit   string `json:"commit,omitempty"`
	What     string `json:"what"`
	Match    struct {
		Harness string        `json:"harness"`
		Label   string        `json:"label"`
		Cond    []ExcludeCond `json:"cond"`
	} `json:"match"`
}

func loadKnown() []KnownFinding {
	f, err := os.Open(filepath.Join(verifDir(), "known_findings.txt"))
	if err != nil {
		return nil
	}
	defer f.Close()
	var out []KnownFinding
	sc := bufio.NewScanner(f)
	sc.Buffer(make([]byte, 1<<20), 1<<20)
	for sc.Scan() {
		l := strings.TrimSpace(sc.Text())
		if !strings.HasPrefix(l, "known:") {
			continue // comments and "fixed:" entries suppress nothing
		}
		var k KnownFinding
		k.Status = "known"
		rest := strings.TrimSpace(strings.TrimPrefix(l, "known:"))
		for _, fld := range strings.Fields(rest) {
			if strings.HasPrefix(fld, "property=") {
				k.Property = strings.TrimPrefix(fld, "property=")
			}
		}
		if i := strings.Index(rest, "match="); i >= 0 {
			dec := json.NewDecoder(strings.NewReader(rest[i+6:]))
			if err := dec.Decode(&k.Match); err != nil {
				continue
			}
			k.What = strings.TrimSpace(rest[i+6+int(dec.InputOffset()):])
		} else {
			continue
		}
		out = append(out, k)
	}
	return out
}

func (k *KnownFinding) matches(prop string, inst *Instance, f *Finding) bool {
	if k.Status != "known" || k.Property != prop {
		return false
	}
	if k.Match.Harness != "" && k.Match.Harness != inst.Harness {
		return false
	}
	if k.Match.Label != "" && k.Match.Label != f.Label {
		return false
	}
	for _, c := range k.Match.Cond {
		v, ok := f.Values[c.Input]
		if !ok {
			return false
		}
		var got int64
		switch a := v.(type) {
		case []int:
			if c.Index >= len(a) {
				return false
			}
			got = int64(a[c.Index])
		case int64:
			got = a
		case int:
			got = int64(a)
		default:
			return false
		}
		if (c.Op == "eq") != (got == c.Value) {
			return false
		}
	}
	return true
}

// ---------------------------------------------------------------- a check run

type CheckRun struct {
	Spec       *PropertySpec
	Cfg        Config
	P          *Program
	Insts      []*Instance
	Stats      map[string]*SolverStats
	Replayer   *Replayer
	Violations []string // replay paths
	Known      []string
	Inconcl    []string
	Broken     []string
	Validated  int
	ValidMis   []string
	Samples    []interface{}
	StructObl  int
	StructFail []string
	TmpDir     string
	Extra      map[string]interface{}
}

var checkDeadline = time.Now().Add(24 * time.Hour)

func runInstances(P *Program, insts []*Instance, cfg Config, stats map[string]*SolverStats) {
	var wg sync.WaitGroup
	ch := make(chan *Instance)
	primary := cfg.Solvers[0]
	for w := 0; w < cfg.Workers; w++ {
		wg.Add(1)
		go func() {
			defer wg.Done()
			for inst := range ch {
				left := time.Until(checkDeadline).Seconds()
				if left < 5 {
					inst.Ends = map[string]int{"bound": 1}
					inst.EndMsgs = map[string]int{"bound: check time budget exhausted before this instance started": 1}
					inst.Notes = map[string]int{}
					inst.reached = map[string]int{}
					inst.oblLabels = map[string]int{}
					inst.Funcs = map[string]bool{}
					inst.Writes = map[string]bool{}
					continue
				}
				if inst.MaxWallS == 0 || inst.MaxWallS > left {
					inst.MaxWallS = left
					if instWallBudget < left {
						inst.MaxWallS = instWallBudget
					}
				}
				inst.Run(P, primary, cfg.Timeout, cfg.Seed, stats[primary])
			}
		}()
	}
	for _, i := range insts {
		ch <- i
	}
	close(ch)
	wg.Wait()
}

func (c *CheckRun) labelIn(l string) bool {
	return c.Spec.Labels == nil || c.Spec.Labels[l]
}

func runCheck(spec *PropertySpec, cfg Config) int {
	t0 := time.Now()
	P, err := LoadProgram()
	if err != nil {
		fmt.Printf("BROKEN property=%s cannot load /repo with the harness: %v\n", spec.ID, err)
		writeEvidence(&CheckRun{Spec: spec, Cfg: cfg, Broken: []string{"load: " + err.Error()}}, time.Since(t0).Seconds())
		return 2
	}
	loadS := time.Since(t0).Seconds()
	tmp, _ := os.MkdirTemp("", "verif-"+spec.ID+"-")
	defer os.RemoveAll(tmp)
	c := &CheckRun{Spec: spec, Cfg: cfg, P: P, Stats: map[string]*SolverStats{}, Replayer: NewReplayer(tmp), TmpDir: tmp, Extra: map[string]interface{}{}}
	for _, s := range cfg.Solvers {
		c.Stats[s] = &SolverStats{}
	}
	c.Insts = spec.Instances(cfg.Tier)
	for _, i := range c.Insts {
		if spec.Panics {
			i.CheckPanics = true
		}
	}
	runInstances(P, c.Insts, cfg, c.Stats)
	c.Extra["load_s"] = loadS

	// cross-check with the other solvers in thorough tier: re-run every instance and compare verdict summaries
	if len(cfg.Solvers) > 1 {
		c.crossCheck()
	}
	if spec.Post != nil {
		spec.Post(c)
	}
	c.judge()
	if len(c.Violations) == 0 {
		c.runFallback()
	}
	wall := time.Since(t0).Seconds()
	writeEvidence(c, wall)
	return c.report(wall)
}

func (c *CheckRun) crossCheck() {
	base := map[string]*Instance{}
	for _, i := range c.Insts {
		base[i.Key()] = i
	}
	for _, s := range c.Cfg.Solvers[1:] {
		cfg2 := c.Cfg
		cfg2.Solvers = []string{s}
		if cfg2.Timeout > 60000 {
			cfg2.Timeout = 60000 // a second opinion that does not arrive in a minute is "no opinion"
		}
		insts := c.Spec.Instances(c.Cfg.Tier)
		for _, i := range insts {
			i.MaxWitnesses = 0
			if c.Spec.Panics {
				i.CheckPanics = true
			}
		}
		// the second opinion gets a bounded share of the run: 120 s per instance, 20 min per solver
		savedDeadline, savedBudget := checkDeadline, instWallBudget
		if d := time.Now().Add(20 * time.Minute); d.Before(checkDeadline) {
			checkDeadline = d
		}
		instWallBudget = 120
		for _, i := range insts {
			i.MaxWallS = 120
		}
		runInstances(c.P, insts, cfg2, c.Stats)
		checkDeadline, instWallBudget = savedDeadline, savedBudget
		dis, undecided, agree := 0, 0, 0
		for _, i := range insts {
			b := base[i.Key()]
			if b == nil {
				continue
			}
			fa, fb := findingLabels(b), findingLabels(i)
			switch {
			case i.Inconclusive() && fb == "":
				undecided++ // the second solver could not decide everything the first one did: no opinion
			case fa != fb:
				dis++
				c.Inconcl = append(c.Inconcl, fmt.Sprintf("solver disagreement on %s: %s finds [%s], %s finds [%s]", i.Key(), c.Cfg.Solvers[0], fa, s, fb))
			default:
				agree++
			}
		}
		c.Extra["second_opinion_"+s] = fmt.Sprintf("%d instances agree, %d undecided within 60 s/query (no opinion), %d disagree", agree, undecided, dis)
	}
}

func findingLabels(i *Instance) string {
	var labels []string
	for _, f := range i.Findings {
		labels = append(labels, f.Kind+":"+f.Label)
	}
	sort.Strings(labels)
	return strings.Join(labels, ",")
}

func verdictSummary(i *Instance) string {
	var labels []string
	for _, f := range i.Findings {
		labels = append(labels, f.Kind+":"+f.Label)
	}
	sort.Strings(labels)
	return fmt.Sprintf("obl=%d dis=%d inc=%d findings=%v", i.Obl, i.Discharged, i.Inconcl, labels)
}

// judge replays findings and witnesses natively and classifies.
func (c *CheckRun) judge() {
	c.judgeInsts(c.Insts, 0)
}

// judgeInsts replays findings and witnesses of the given instances natively and classifies them.
// A confirmed violation that matches a known finding is not counted; its instance is solved again
// with that class excluded, so a different violation of the same property is still reported.
func (c *CheckRun) judgeInsts(insts []*Instance, depth int) {
	known := loadKnown()
	var reruns []*Instance
	type pending struct {
		inst *Instance
		f    *Finding
		vec  *Vector
	}
	var pend []pending
	var wit []pending
	for _, inst := range insts {
		for k, n := range inst.EndMsgs {
			if strings.HasPrefix(k, "enginebug") {
				if os.Getenv("VERIF_DEBUG") != "" {
					fmt.Fprintln(os.Stderr, k)
				}
				c.Broken = append(c.Broken, fmt.Sprintf("%s: %s (x%d)", inst.Key(), firstLine(k), n))
			} else {
				c.Inconcl = append(c.Inconcl, fmt.Sprintf("%s: %s (x%d)", inst.Key(), k, n))
			}
		}
		for n, k := range inst.Notes {
			c.Inconcl = append(c.Inconcl, fmt.Sprintf("%s: %s (x%d)", inst.Key(), n, k))
		}
		if inst.reached["end"] == 0 && len(inst.Findings) == 0 && len(inst.EndMsgs) == 0 {
			c.Broken = append(c.Broken, fmt.Sprintf("%s: vacuous — no path reaches the end of the harness", inst.Key()))
		}
		for fi := range inst.Findings {
			f := &inst.Findings[fi]
			if f.Kind == "assert" && !c.labelIn(f.Label) {
				continue
			}
			if f.Kind == "panic" && !c.Spec.Panics {
				continue
			}
			if inst.Harness == "H_C12_sched" {
				// schedule-dependent failure: the native replay repeats the concurrent pair many times
				f.Values["stress"] = 300
			}
			pend = append(pend, pending{inst, f, &Vector{Harness: inst.Harness, Args: inst.Args, Vals: f.Values, Property: c.Spec.ID, Label: f.Label, Kind: f.Kind, Predict: f.Predict}})
		}
		for wi := range inst.Witnesses {
			w := &inst.Witnesses[wi]
			wit = append(wit, pending{inst, nil, &Vector{Harness: inst.Harness, Args: inst.Args, Vals: w.Values, Predict: w.Predict, Kind: "witness"}})
		}
	}
	if len(pend)+len(wit) == 0 {
		return
	}
	// findings that involve opaque text or "any spelling" inputs are replayed in several concrete spellings
	{
		var more []pending
		for _, p := range pend {
			for _, vals := range spellingVariants(p.f.Values) {
				v := *p.vec
				v.Vals = vals
				more = append(more, pending{p.inst, p.f, &v})
			}
		}
		pend = append(pend, more...)
	}
	var vecs []*Vector
	for _, p := range pend {
		vecs = append(vecs, p.vec)
	}
	for _, p := range wit {
		vecs = append(vecs, p.vec)
	}
	res, err := c.Replayer.Run(vecs)
	if err != nil {
		c.Broken = append(c.Broken, "native replay: "+err.Error())
		return
	}
	// schedule-dependent findings: if one in-process stress run did not reproduce, try fresh
	// (cold-start) processes of the -race build, which also widens the timing windows
	var coldRP *Replayer
	for i, p := range pend {
		if p.inst.Harness != "H_C12_sched" || len(res[i].Failures) > 0 || res[i].Panic != "" {
			continue
		}
		if coldRP == nil {
			osMkdirAll(c.TmpDir + "/cold")
			coldRP = NewReplayer(c.TmpDir + "/cold")
			coldRP.race = true
		}
		raced, failures, out, rerr := coldRP.RunRace(p.vec, 25)
		if rerr != nil {
			continue
		}
		if raced {
			failures = append(failures, "concurrent-data-race-reported")
		}
		if len(failures) > 0 {
			res[i] = &NativeResult{Failures: failures}
			p.vec.Note = "reproduced in a fresh process of the -race build: " + firstLines(out, 4)
		}
	}
	os.MkdirAll(filepath.Join(evidenceDir(), "replays"), 0755)
	nviol := len(c.Violations)
	doneFinding := map[*Finding]bool{}
	lastMiss := map[*Finding]string{}
	for i, p := range pend {
		r := res[i]
		if doneFinding[p.f] {
			continue
		}
		confirmed := false
		if p.f.Kind == "panic" {
			confirmed = r.Panic != ""
		} else {
			for _, l := range r.Failures {
				if l == p.f.Label {
					confirmed = true
				}
				// a schedule-dependent failure may surface in either goroutine or in the later call
				if p.inst.Harness == "H_C12_sched" && strings.HasPrefix(l, "concurrent-") {
					confirmed = true
				}
			}
		}
		if !confirmed {
			lastMiss[p.f] = fmt.Sprintf("%s: solver model for %q does not reproduce natively (failures=%v panic=%q assume_failed=%v): encoding or stub imprecise here", p.inst.Key(), p.f.Label, r.Failures, r.Panic, r.Assumed)
			continue
		}
		doneFinding[p.f] = true
		isKnown := false
		for ki := range known {
			if known[ki].matches(c.Spec.ID, p.inst, p.f) {
				isKnown = true
				c.Known = append(c.Known, known[ki].What)
			}
		}
		if isKnown {
			if depth < 3 {
				for ki := range known {
					if known[ki].matches(c.Spec.ID, p.inst, p.f) {
						ni := &Instance{Harness: p.inst.Harness, Args: p.inst.Args, Lang: p.inst.Lang, CheckPanics: p.inst.CheckPanics,
							MaxWitnesses: 0, Exclude: append(append([]ExcludeCond{}, p.inst.Exclude...), known[ki].Match.Cond...)}
						reruns = append(reruns, ni)
					}
				}
			}
			continue
		}
		if nviol >= 12 {
			c.Extra["violations_not_written"] = "more than 12 confirmed violations; only the first 12 replay files are written"
			continue
		}
		nviol++
		path := filepath.Join(evidenceDir(), "replays", fmt.Sprintf("%s-%d.json", c.Spec.ID, nviol))
		p.vec.Note = fmt.Sprintf("native replay: failures=%v panic=%q", r.Failures, r.Panic)
		b, _ := json.MarshalIndent(p.vec, "", " ")
		os.WriteFile(path, b, 0644)
		c.Violations = append(c.Violations, path)
		if len(c.Samples) < 6 {
			c.Samples = append(c.Samples, map[string]interface{}{"kind": "violation", "harness": p.inst.Harness, "args": p.inst.Args, "label": p.f.Label, "inputs": p.f.Values})
		}
	}
	for f, m := range lastMiss {
		if !doneFinding[f] {
			c.Inconcl = append(c.Inconcl, m)
		}
	}
	// an instance with a solver model that did not reproduce is inconclusive: it gets the fallback too
	for _, p := range pend {
		if !doneFinding[p.f] {
			p.inst.Unconfirmed = true
		}
	}
	for i, p := range wit {
		r := res[len(pend)+i]
		ok := len(r.Failures) == 0 && r.Panic == "" && !r.Assumed
		mis := ""
		if !ok {
			mis = fmt.Sprintf("native run of a path witness: failures=%v panic=%q assume_failed=%v", r.Failures, r.Panic, r.Assumed)
		}
		for k, want := range p.vec.Predict {
			if got, has := r.Observed[k]; has && got != want {
				ok = false
				mis = fmt.Sprintf("predicted %s=%q, real code gave %q", k, want, got)
			}
		}
		if ok {
			c.Validated++
			if len(c.Samples) < 4 {
				c.Samples = append(c.Samples, map[string]interface{}{"kind": "path witness replayed natively", "harness": p.inst.Harness, "args": p.inst.Args, "inputs": p.vec.Vals, "predicted_and_observed": p.vec.Predict})
			}
		} else {
			c.ValidMis = append(c.ValidMis, p.inst.Key()+": "+mis)
		}
	}
	if len(reruns) > 0 {
		runInstances(c.P, reruns, c.Cfg, c.Stats)
		c.Extra["instances_resolved_with_known_class_excluded"] = len(reruns)
		c.judgeInsts(reruns, depth+1)
	}
}

func firstLine(s string) string {
	if i := strings.IndexByte(s, '\n'); i >= 0 {
		return s[:i]
	}
	return s
}

func dedupe(xs []string) []string {
	sort.Strings(xs)
	var out []string
	for i, x := range xs {
		if i == 0 || x != xs[i-1] {
			out = append(out, x)
		}
	}
	return out
}

func (c *CheckRun) report(wall float64) int {
	id := c.Spec.ID
	for _, k := range dedupe(c.Known) {
		fmt.Printf("KNOWN-FINDING: property=%s %s\n", id, k)
	}
	for _, m := range c.ValidMis {
		c.Broken = append(c.Broken, "translator validation mismatch: "+m)
	}
	c.Inconcl = dedupe(c.Inconcl)
	for _, m := range c.Inconcl {
		fmt.Printf("INCONCLUSIVE property=%s reason=%s\n", id, m)
	}
	for _, m := range c.StructFail {
		fmt.Printf("STRUCTURAL property=%s %s\n", id, m)
	}
	var obl, dis, paths int
	for _, i := range c.Insts {
		obl += i.Obl
		dis += i.Discharged
		paths += i.Paths
		if c.Spec.Panics {
			obl += i.PanicObl
			dis += i.PanicObl - i.panicFindings() - i.Inconcl
		}
	}
	fmt.Printf("property=%s tier=%s instances=%d paths=%d obligations=%d discharged=%d violations=%d inconclusive=%d validated_witnesses=%d wall=%.1fs\n",
		id, c.Cfg.Tier, len(c.Insts), paths, obl, dis, len(c.Violations), len(c.Inconcl), c.Validated, wall)
	if len(c.Violations) > 0 {
		for _, v := range c.Violations {
			fmt.Printf("VIOLATION property=%s replay=%s\n", id, v)
		}
		return 1
	}
	if len(c.Broken) > 0 {
		for _, b := range c.Broken {
			fmt.Printf("BROKEN property=%s %s\n", id, b)
		}
		return 2
	}
	return 0
}

// ---------------------------------------------------------------- evidence

func writeEvidence(c *CheckRun, wall float64) {
	id := c.Spec.ID
	var obl, dis, triv, paths, steps, forks, inc, cegar, panicObl int
	funcs := map[string]bool{}
	labels := map[string]int{}
	for _, i := range c.Insts {
		obl += i.Obl
		dis += i.Discharged
		triv += i.Trivial
		paths += i.Paths
		steps += i.Steps
		forks += i.Forks
		inc += i.Inconcl
		cegar += i.Cegar
		panicObl += i.PanicObl
		for f := range i.Funcs {
			funcs[f] = true
		}
		for l, n := range i.oblLabels {
			labels[l] += n
		}
	}
	var fl []string
	mod := ""
	if c.P != nil {
		mod = c.P.Pkg.Pkg.Path()
	}
	for f := range funcs {
		if mod != "" && strings.Contains(f, mod) || strings.HasPrefix(f, "io.") {
			if !strings.Contains(f, ".H_") && !strings.Contains(f, ".verif") && !strings.Contains(f, ".spec") && !strings.HasSuffix(f, ".itoa") && !strings.Contains(f, "verifReader") && !strings.Contains(f, "verifTempErr") {
				fl = append(fl, f)
			}
		}
	}
	sort.Strings(fl)
	solv := map[string]interface{}{}
	var solverS float64
	for n, s := range c.Stats {
		solv[n] = map[string]interface{}{"queries": s.Queries, "sat": s.Sat, "unsat": s.Unsat, "unknown": s.Unknown, "errors": s.Errors, "restarts": s.Restarts,
			"solver_time_s": float64(s.Nanos) / 1e9, "max_query_s": float64(s.MaxNanos) / 1e9}
		solverS += float64(s.Nanos) / 1e9
	}
	samples := c.Samples
	if len(samples) == 0 {
		for _, i := range c.Insts {
			if len(samples) >= 3 {
				break
			}
			samples = append(samples, map[string]interface{}{"kind": "instance", "harness": i.Harness, "args": i.Args, "paths": i.Paths, "obligations": i.Obl, "discharged": i.Discharged, "path_ends": i.Ends})
		}
	}
	if len(samples) == 0 {
		samples = append(samples, "no instance ran")
	}
	instKinds := map[string]int{}
	for _, i := range c.Insts {
		instKinds[i.Harness]++
	}
	decided := "smt-solver (unsat on every obligation)"
	if len(c.Inconcl) > 0 {
		decided = "partly inconclusive: see inconclusive list; the claim is reduced to the obligations discharged"
	}
	var src []string
	if c.P != nil {
		src = c.P.SrcHashList()
	}
	cov := map[string]interface{}{
		"states":                         max1(paths),
		"transitions":                    max1(steps),
		"traces_validated_against_impl":  c.Validated,
		"samples":                        samples,
		"obligations":                    obl + c.StructObl + panicOblIf(c, panicObl),
		"discharged":                     dis + c.StructObl - len(c.StructFail) + panicOblIf(c, panicObl-panicFound(c)),
		"discharged_by_constant_folding": triv,
		"panic_obligations":              panicObl,
		"inconclusive_obligations":       inc,
		"assertion_labels":               labels,
		"instances":                      len(c.Insts),
		"instances_by_harness":           instKinds,
		"forks":                          forks,
		"cegar_refinement_rounds":        cegar,
		"functions_encoded":              fl,
		"source_files_sha256_prefix":     src,
		"bounds":                         c.Spec.Bounds,
		"outside_bounds":                 c.Spec.Outside,
		"solvers":                        solv,
		"solver_time_s":                  solverS,
		"decided_by":                     decided,
		"inconclusive":                   c.Inconcl,
		"known_findings_matched":         dedupe(c.Known),
		"structural_failures":            c.StructFail,
		"broken":                         c.Broken,
		"explanation":                    evidenceExplanation(c),
		"exhaustive":                     false,
		"randomness_source_variable":     readerName,
	}
	for k, v := range c.Extra {
		cov[k] = v
	}
	ev := map[string]interface{}{
		"property_id": id,
		"tier":        c.Cfg.Tier,
		"seed":        c.Cfg.Seed,
		"level":       c.Spec.Level,
		"coverage":    cov,
		"assumptions": c.Spec.Stubs,
		"wall_s":      wall,
		"violations":  len(c.Violations),
	}
	os.MkdirAll(evidenceDir(), 0755)
	b, _ := json.MarshalIndent(ev, "", " ")
	os.WriteFile(filepath.Join(evidenceDir(), id+".json"), b, 0644)
}

func evidenceExplanation(c *CheckRun) string {
	if c.Spec.Explain != "" {
		return c.Spec.Explain
	}
	return "Bounded symbolic model checking: the listed functions were executed symbolically from go/ssa built from /repo's current sources; " +
		"'states' counts explored paths, 'transitions' SSA instructions executed, every assertion/obligation is an SMT query (pc ∧ ¬assertion) decided by the solver; " +
		"path witnesses are replayed against the natively compiled package and the engine's predicted outputs compared with the real ones."
}

func max1(n int) int {
	if n < 1 {
		return 1
	}
	return n
}

// ---------------------------------------------------------------- main

func usage() {
	fmt.Fprintln(os.Stderr, "usage: verif check <id> [--tier quick|thorough] | verif selfcheck | verif replay <vector.json> | verif list")
	os.Exit(2)
}

func main() {
	if len(os.Args) < 2 {
		usage()
	}
	if pf := os.Getenv("VERIF_PPROF"); pf != "" {
		f, _ := os.Create(pf)
		pprof.StartCPUProfile(f)
		defer pprof.StopCPUProfile()
		sig := make(chan os.Signal, 1)
		signal.Notify(sig, os.Interrupt)
		go func() { <-sig; pprof.StopCPUProfile(); os.Exit(130) }()
	}
	switch os.Args[1] {
	case "check":
		if len(os.Args) < 3 {
			usage()
		}
		id := os.Args[2]
		cfg := Config{Tier: "quick", Workers: 16, Timeout: 60000}
		if t := os.Getenv("VERIF_TIER"); t == "quick" || t == "thorough" {
			cfg.Tier = t
		}
		for i := 3; i < len(os.Args); i++ {
			switch os.Args[i] {
			case "--tier":
				i++
				cfg.Tier = os.Args[i]
			case "-v":
				cfg.Verbose = true
			}
		}
		if s := os.Getenv("VERIF_SEED"); s != "" {
			if v, err := strconv.Atoi(s); err == nil {
				cfg.Seed = v
			}
		}
		if w := os.Getenv("VERIF_WORKERS"); w != "" {
			if v, err := strconv.Atoi(w); err == nil && v > 0 {
				cfg.Workers = v
			}
		}
		checkDeadline = time.Now().Add(12 * time.Minute)
		if cfg.Tier == "thorough" {
			checkDeadline = time.Now().Add(6 * time.Hour)
			instWallBudget = 3600
			cfg.Solvers = []string{"z3-new", "z3", "cvc5"}
			cfg.Timeout = 300000
		} else {
			cfg.Solvers = []string{"z3-new"}
		}
		if s := os.Getenv("VERIF_SOLVERS"); s != "" {
			cfg.Solvers = strings.Split(s, ",")
		}
		spec, ok := properties()[id]
		if !ok {
			fmt.Fprintf(os.Stderr, "unknown property %s\n", id)
			os.Exit(2)
		}
		rc := runCheck(spec, cfg)
		pprof.StopCPUProfile()
		os.Exit(rc)
	case "run":
		// debugging: verif run <harness> <lang> [args...]  (env VERIF_PANICS=1 to check panics)
		var args []int64
		for _, a := range os.Args[3:] {
			v, _ := strconv.ParseInt(a, 10, 64)
			args = append(args, v)
		}
		lang := 2
		if len(args) > 0 && args[0] >= 0 && args[0] <= 9 {
			lang = int(args[0])
		}
		if l := os.Getenv("VERIF_LANG"); l != "" {
			lang, _ = strconv.Atoi(l)
		}
		h := os.Args[2]
		var post func(c *CheckRun)
		if h == "H_C12_pair" || h == "H_C12_sched" {
			post = c12Post
		}
		spec := &PropertySpec{ID: "DEBUG", Level: "model_checking", Panics: os.Getenv("VERIF_PANICS") != "", Post: post,
			Instances: func(string) []*Instance {
				return []*Instance{{Harness: h, Args: args, Lang: lang, MaxWitnesses: 2, LogEvents: h == "H_C12_pair" || h == "H_C12_sched"}}
			}}
		solvers := []string{"z3-new"}
		if s := os.Getenv("VERIF_SOLVERS"); s != "" {
			solvers = strings.Split(s, ",")
		}
		if b := os.Getenv("VERIF_BUDGET_S"); b != "" {
			if v, err := strconv.Atoi(b); err == nil {
				instWallBudget = float64(v)
			}
		}
		to := 60000
		if t := os.Getenv("VERIF_TIMEOUT_MS"); t != "" {
			to, _ = strconv.Atoi(t)
		}
		rc := runCheck(spec, Config{Tier: "quick", Workers: 1, Timeout: to, Solvers: solvers})
		pprof.StopCPUProfile()
		b, _ := os.ReadFile(filepath.Join(evidenceDir(), "DEBUG.json"))
		var ev map[string]interface{}
		json.Unmarshal(b, &ev)
		cov := ev["coverage"].(map[string]interface{})
		fmt.Println("solvers:", cov["solvers"])
		fmt.Println("samples:", cov["samples"])
		os.Remove(filepath.Join(evidenceDir(), "DEBUG.json"))
		os.Exit(rc)
	case "replay":
		if len(os.Args) < 3 {
			usage()
		}
		os.Exit(replayCmd(os.Args[2]))
	case "selfcheck":
		os.Exit(selfcheck())
	case "list":
		var ids []string
		for id := range properties() {
			ids = append(ids, id)
		}
		sort.Strings(ids)
		fmt.Println(strings.Join(ids, " "))
	default:
		usage()
	}
}

func replayCmd(path string) int {
	b, err := os.ReadFile(path)
	if err != nil {
		fmt.Println(err)
		return 2
	}
	var v Vector
	if err := json.Unmarshal(b, &v); err != nil {
		fmt.Println(err)
		return 2
	}
	tmp, _ := os.MkdirTemp("", "verif-replay-")
	defer os.RemoveAll(tmp)
	r := NewReplayer(tmp)
	res, err := r.Run([]*Vector{&v})
	if err != nil {
		fmt.Println(err)
		return 2
	}
	out, _ := json.MarshalIndent(res[0], "", " ")
	fmt.Println(string(out))
	if len(res[0].Failures) > 0 || res[0].Panic != "" {
		fmt.Printf("VIOLATION property=%s replay=%s\n", v.Property, path)
		return 1
	}
	return 0
}

// ---------------------------------------------------------------- structural post-checks

func (c *CheckRun) structural(ok bool, what string) {
	c.StructObl++
	if !ok {
		c.StructFail = append(c.StructFail, what)
	}
}

func c07Post(c *CheckRun) {
	for _, i := range c.Insts {
		for w := range i.Writes {
			if readerName != "" && strings.Contains(w, "."+readerName) {
				c.structural(false, fmt.Sprintf("%s: a path writes the randomness source variable %s", i.Key(), w))
			}
		}
	}
	c.structural(readerName != "", "no package-level randomness source variable found in the repository package")
}

func c08Post(c *CheckRun) {}

func c13Post(c *CheckRun) {}

var opaquePool = []string{strings.Repeat("a", 128), strings.Repeat("b", 127) + " " + strings.Repeat("c", 129), strings.Repeat("x", 253) + "e\u0302\u0323 tail", strings.Repeat("y", 509) + "o\u0302\u0323\u0301z",
	"x\u00a0y", "\u00b5\u00b2\u00bd", "\u00b4secret", " lead and trail ", "\ufdfa", "\u3316\u3316\u3316", "\u2057\u2057 x", "pw\ufdfa\u0301", "ｆｕｌｌ　ｗｉｄｔｈ", "caf\u00e9 \u212b", "e\u0301\u0323 a\u0323\u0301", "\u00a0x\u2003y", "\u3392\ufb01\u00bd", "\u0301\u0323lead", "\ud55c\uae00 \u304c\u30ac", "plain ascii", strings.Repeat("\u00e9\u3000", 80)}

// spellingVariants: alternative concrete choices for opaque-text and spelling inputs of a counterexample.
func spellingVariants(vals map[string]interface{}) []map[string]interface{} {
	var opq, forms []string
	for k, v := range vals {
		if strings.HasSuffix(k, ".form") {
			forms = append(forms, k)
		} else if _, ok := v.(string); ok && !isTokenName(k) {
			opq = append(opq, k)
		}
	}
	sort.Strings(opq)
	sort.Strings(forms)
	if len(opq) == 0 && len(forms) == 0 {
		return nil
	}
	var out []map[string]interface{}
	clone := func() map[string]interface{} {
		m := map[string]interface{}{}
		for k, v := range vals {
			m[k] = v
		}
		return m
	}
	if len(opq) > 0 {
		for i := range opaquePool {
			m := clone()
			for k, name := range opq {
				m[name] = opaquePool[(i+k)%len(opaquePool)]
			}
			out = append(out, m)
		}
	}
	if len(forms) > 0 {
		for f := 0; f < 10; f++ {
			m := clone()
			for _, name := range forms {
				m[name] = f
			}
			out = append(out, m)
			m2 := clone()
			for k, name := range forms {
				m2[name] = (f + k + 1) % 10
			}
			out = append(out, m2)
		}
	}
	return out
}

func isTokenName(k string) bool {
	if len(k) < 2 || (k[0] != 't' && k[0] != 'w' && k[0] != 'a' && k[0] != 'b') {
		return false
	}
	for _, c := range k[1:] {
		if c < '0' || c > '9' {
			return false
		}
	}
	return true
}

func (i *Instance) panicFindings() int {
	n := 0
	for _, f := range i.Findings {
		if f.Kind == "panic" {
			n++
		}
	}
	return n
}

func panicOblIf(c *CheckRun, n int) int {
	if c.Spec.Panics {
		return n
	}
	return 0
}

func panicFound(c *CheckRun) int {
	n := 0
	for _, i := range c.Insts {
		n += i.panicFindings()
	}
	return n
}
