package main

import (
	"crypto/sha256"
	"fmt"
	"go/types"
	"os"
	"path/filepath"
	"runtime/debug"
	"sort"
	"strings"
	"sync"
	"time"

	"golang.org/x/tools/go/ssa"
)

func sha256sum(b []byte) [32]byte { return sha256.Sum256(b) }

var (
	goldenMu    sync.Mutex
	goldenCache = map[int][]string{}
	goldenFiles = []string{"0_chinese_simplified", "1_chinese_traditional", "2_english", "3_french", "4_italian", "5_japanese", "6_korean", "7_spanish", "8_czech", "9_portuguese"}
	langNames   = []string{"ChineseSimplified", "ChineseTraditional", "English", "French", "Italian", "Japanese", "Korean", "Spanish", "Czech", "Portuguese"}
)

func goldenList(lg int) []string {
	goldenMu.Lock()
	defer goldenMu.Unlock()
	if l, ok := goldenCache[lg]; ok {
		return l
	}
	b, err := os.ReadFile(filepath.Join(verifDir(), "golden", goldenFiles[lg]+".txt"))
	if err != nil {
		panic(err)
	}
	l := strings.Split(strings.TrimSuffix(string(b), "\n"), "\n")
	if len(l) != 2048 {
		panic("golden list " + goldenFiles[lg] + " does not have 2048 words")
	}
	goldenCache[lg] = l
	return l
}

var instWallBudget = 150.0

type Instance struct {
	Harness             string
	Args                []int64
	Lang                int // language whose canonical words are interned as 0..2047
	CheckPanics         bool
	LogEvents           bool
	MaxWitnesses        int
	MaxFindingsPerLabel int
	MaxPaths            int
	Exclude             []ExcludeCond
	OpaquePool          map[string]string
	FormPool            map[string]int

	deadline       time.Time
	solverTimeouts int
	Unconfirmed    bool
	SeenInputs     map[string]string
	BulkWitnesses  int
	MaxWallS       float64
	firstFindingAt int
	StoppedEarly   bool

	in          *Interner
	feasCache   map[string]string
	CacheHits   int
	snap        *heapSnap
	initPerPath bool
	goldenIDs   map[int][]int
	oblLabels   map[string]int
	reached     map[string]int

	Paths       int
	Steps       int
	Forks       int
	Obl         int
	Discharged  int
	Trivial     int
	Inconcl     int
	PanicObl    int
	Findings    []Finding
	Witnesses   []Witness
	Notes       map[string]int
	Ends        map[string]int
	EndMsgs     map[string]int
	suppressed  int
	Writes      map[string]bool
	Funcs       map[string]bool
	Cegar       int
	WallS       float64
	Traces      [][][]raceEvent // distinct coalesced per-thread traces, if LogEvents
	traceSeen   map[string]bool
	TracePaths  int
	ReaderCalls int
	SampleObl   []string
}

type ExcludeCond struct {
	Input string `json:"input"`
	Index int    `json:"index"`
	Op    string `json:"op"` // eq | ne
	Value int64  `json:"value"`
}

func (inst *Instance) opaquePick(name string) string {
	if s, ok := inst.OpaquePool[name]; ok {
		return s
	}
	return ""
}

func (inst *Instance) formPick(name string) int {
	if f, ok := inst.FormPool[name]; ok {
		return f
	}
	return 0
}

func (inst *Instance) Key() string {
	return fmt.Sprintf("%s%v", inst.Harness, inst.Args)
}

func (inst *Instance) Inconclusive() bool {
	if inst.Unconfirmed {
		return true
	}
	for k := range inst.Ends {
		if k == "unsupported" || k == "bound" || k == "enginebug" {
			return true
		}
	}
	if inst.Inconcl > 0 {
		return true
	}
	for n := range inst.Notes {
		if strings.HasPrefix(n, "imprecise") || strings.Contains(n, "unknown") || strings.Contains(n, "CEGAR") {
			return true
		}
	}
	return false
}

func (inst *Instance) Run(P *Program, solverName string, timeoutMs int, seed int, stats *SolverStats) {
	t0 := time.Now()
	solver := NewSolver(solverName, timeoutMs, seed, stats)
	defer solver.Close()
	inst.deadline = time.Time{}
	if !inst.prepare(P, solver) {
		inst.WallS = time.Since(t0).Seconds()
		return
	}
	inst.deadline = t0.Add(time.Duration((inst.MaxWallS + 30) * float64(time.Second)))
	work := [][]Decision{nil}
	for len(work) > 0 {
		prefix := work[len(work)-1]
		work = work[:len(work)-1]
		if inst.Paths >= inst.MaxPaths {
			inst.Ends["bound"]++
			inst.EndMsgs[fmt.Sprintf("bound: path budget (%d) exhausted with %d paths pending", inst.MaxPaths, len(work)+1)]++
			break
		}
		if inst.MaxWallS > 0 && time.Since(t0).Seconds() > inst.MaxWallS {
			inst.Ends["bound"]++
			inst.EndMsgs[fmt.Sprintf("bound: time budget (%.0fs) exhausted after %d paths with %d pending", inst.MaxWallS, inst.Paths, len(work)+1)]++
			break
		}
		if len(inst.Findings) > 0 {
			if inst.firstFindingAt == 0 {
				inst.firstFindingAt = inst.Paths
			}
			if inst.Paths > inst.firstFindingAt+40 {
				inst.StoppedEarly = true
				break
			}
		}
		x := &Exec{inst: inst, P: P, solver: solver, in: inst.in, prefix: prefix,
			globals: map[*ssa.Global]*Object{}, externs: map[string]*Object{}, writes: map[string]bool{},
			funcsSeen: inst.Funcs, checkPanics: inst.CheckPanics, logEvents: inst.LogEvents}
		end := x.runPath()
		inst.Paths++
		inst.Steps += x.steps
		inst.Forks += len(x.alts)
		inst.Obl += x.nObl
		inst.Discharged += x.nDischarged
		inst.Trivial += x.nTrivial
		inst.Inconcl += x.nInconcl
		inst.PanicObl += x.nPanicObl
		inst.Cegar += x.cegarRounds
		inst.Ends[end.Kind]++
		if end.Kind != "done" && end.Kind != "infeasible" {
			inst.EndMsgs[end.Kind+": "+end.Msg]++
		}
		for _, n := range x.notes {
			inst.Notes[n]++
		}
		for w := range x.writes {
			inst.Writes[w] = true
		}
		if inst.SeenInputs == nil {
			inst.SeenInputs = map[string]string{}
		}
		for _, in := range x.inputs {
			inst.SeenInputs[in.Name] = in.Kind
		}
		if inst.LogEvents && end.Kind == "done" {
			// keep only the coalesced per-thread traces, one per distinct shape
			var threads [][]raceEvent
			if inst.Harness == "H_C12_sched" {
				threads = splitSched(x.events)
			} else {
				threads = splitThreads(x.events)
			}
			var flat []raceEvent
			for _, t := range threads {
				flat = append(flat, t...)
			}
			sig := raceSignature(flat)
			if inst.traceSeen == nil {
				inst.traceSeen = map[string]bool{}
			}
			inst.TracePaths++
			if !inst.traceSeen[sig] {
				inst.traceSeen[sig] = true
				inst.Traces = append(inst.Traces, threads)
			}
		}
		x.events = nil
		if x.readerCalls > inst.ReaderCalls {
			inst.ReaderCalls = x.readerCalls
		}
		work = append(work, x.alts...)
	}
	inst.WallS = time.Since(t0).Seconds()
	// release what only the exploration needed (thousands of instances are kept for the report)
	inst.snap = nil
	inst.feasCache = nil
	inst.in = nil
	inst.goldenIDs = nil
	inst.traceSeen = nil
}

// prepare interns the golden list and executes package initialisation once (heap snapshot).
func (inst *Instance) prepare(P *Program, solver *Solver) bool {
	t0 := time.Now()
	_ = t0
	inst.in = NewInterner(goldenList(inst.Lang))
	inst.in.ID("")
	inst.goldenIDs = map[int][]int{}
	inst.feasCache = map[string]string{}
	inst.oblLabels = map[string]int{}
	inst.reached = map[string]int{}
	inst.Notes = map[string]int{}
	inst.Ends = map[string]int{}
	inst.EndMsgs = map[string]int{}
	inst.Writes = map[string]bool{}
	inst.Funcs = map[string]bool{}
	if inst.MaxFindingsPerLabel == 0 {
		inst.MaxFindingsPerLabel = 1
	}
	if inst.MaxPaths == 0 {
		inst.MaxPaths = 20000
	}
	if inst.MaxWallS == 0 {
		inst.MaxWallS = instWallBudget
	}
	// package initialisation is executed once per instance and snapshotted
	{
		x0 := &Exec{inst: inst, P: P, solver: solver, in: inst.in, globals: map[*ssa.Global]*Object{}, externs: map[string]*Object{}, writes: map[string]bool{}, funcsSeen: inst.Funcs}
		if end := x0.runInit(); end.Kind != "done" {
			inst.Ends[end.Kind]++
			inst.EndMsgs[end.Kind+": (package init) "+end.Msg]++
			return false
		}
		if len(x0.alts) > 0 || len(x0.inputs) > 0 || len(x0.pc) > 0 {
			// package initialisation depends on the environment: it is re-executed on every path
			inst.initPerPath = true
		}
		inst.snap = x0.snapshot()
		inst.Steps += x0.steps
	}
	return true
}

func (x *Exec) runInit() (end pathEnd) {
	defer func() {
		if r := recover(); r != nil {
			if pe, ok := r.(pathEnd); ok {
				end = pe
				return
			}
			end = pathEnd{"enginebug", fmt.Sprint(r) + "\n" + string(debug.Stack())}
		}
	}()
	x.inInit = true
	if x.P.WordPkg != nil {
		if f := x.P.WordPkg.Func("init"); f != nil {
			x.call(f, nil)
		}
	}
	x.call(x.P.Pkg.Func("init"), nil)
	x.inInit = false
	return pathEnd{"done", ""}
}

func (x *Exec) runPath() (end pathEnd) {
	defer func() {
		if r := recover(); r != nil {
			if pe, ok := r.(pathEnd); ok {
				end = pe
				return
			}
			end = pathEnd{"enginebug", fmt.Sprint(r) + "\n" + string(debug.Stack())}
		}
	}()
	if x.inst.initPerPath {
		x.inInit = true
		if x.P.WordPkg != nil {
			if f := x.P.WordPkg.Func("init"); f != nil {
				x.call(f, nil)
			}
		}
		x.call(x.P.Pkg.Func("init"), nil)
		x.inInit = false
		x.writes = map[string]bool{}
	} else {
		x.restore(x.inst.snap)
	}
	fn := x.P.Func(x.inst.Harness)
	if fn == nil {
		panic(unsupported("harness function not found: " + x.inst.Harness))
	}
	args := make([]Value, len(fn.Params))
	for i, p := range fn.Params {
		w, _, ok := intWidth(p.Type())
		if !ok {
			panic(unsupported("harness parameter type " + p.Type().String()))
		}
		args[i] = BVi(x.inst.Args[i], w)
	}
	for _, ex := range x.inst.Exclude {
		x.pendingExclude = append(x.pendingExclude, ex)
	}
	x.call(fn, args)
	return pathEnd{"done", ""}
}

// applyExcludes turns known-finding exclusions into assumptions once the named input exists.
func (x *Exec) applyExcludes() {
	rest := x.pendingExclude[:0]
	for _, ex := range x.pendingExclude {
		done := false
		for _, in := range x.inputs {
			if in.Name == ex.Input && ex.Index < len(in.Terms) {
				t := in.Terms[ex.Index]
				c := Eq(t, BVi(ex.Value, t.W))
				if ex.Op == "eq" {
					x.addPC(Not(c)) // exclude the class input==value
				} else {
					x.addPC(c)
				}
				done = true
			}
		}
		if !done {
			rest = append(rest, ex)
		}
	}
	x.pendingExclude = rest
}

// ---- footprint helpers

func (inst *Instance) WritesOutside(allowed func(loc string) bool) []string {
	var bad []string
	for w := range inst.Writes {
		if !allowed(w) {
			bad = append(bad, w)
		}
	}
	sort.Strings(bad)
	return bad
}

func typeIsReader(t types.Type) bool {
	n, ok := t.(*types.Named)
	return ok && n.Obj().Pkg() != nil && n.Obj().Pkg().Path() == "io" && n.Obj().Name() == "Reader"
}
