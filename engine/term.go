package main

// SMT term DAG with hash-consing, constant folding and light simplification.
// Width 0 = Bool. All Go integers are bit-vectors of their Go width.

import (
	"fmt"
	"math/big"
	"strconv"
	"strings"
	"sync"
)

type Term struct {
	Op   string
	W    int
	Args []*Term
	Val  *big.Int // const (Bool: 0/1)
	Name string   // var / uf name
	A, B int      // extract hi/lo, zext/sext amount
	id   int
	ub   int // unsigned bit-length upper bound (BV only)
}

var (
	termMu    sync.Mutex
	termTab   = map[string]*Term{}
	termCount int
)

func intern(t *Term) *Term {
	buf := make([]byte, 0, 48)
	buf = append(buf, t.Op...)
	buf = append(buf, '|')
	buf = strconv.AppendInt(buf, int64(t.W), 10)
	buf = append(buf, '|')
	buf = append(buf, t.Name...)
	buf = append(buf, '|')
	buf = strconv.AppendInt(buf, int64(t.A), 10)
	buf = append(buf, '|')
	buf = strconv.AppendInt(buf, int64(t.B), 10)
	if t.Val != nil {
		buf = append(buf, '|')
		if t.Val.IsUint64() {
			buf = strconv.AppendUint(buf, t.Val.Uint64(), 16)
		} else {
			buf = t.Val.Append(buf, 16)
		}
	}
	for _, a := range t.Args {
		buf = append(buf, ',')
		buf = strconv.AppendInt(buf, int64(a.id), 10)
	}
	k := string(buf)
	termMu.Lock()
	defer termMu.Unlock()
	if o, ok := termTab[k]; ok {
		return o
	}
	termCount++
	t.id = termCount
	t.ub = computeUB(t)
	termTab[k] = t
	return t
}

func computeUB(t *Term) int {
	if t.W == 0 {
		return 0
	}
	min := func(a, b int) int {
		if a < b {
			return a
		}
		return b
	}
	max := func(a, b int) int {
		if a > b {
			return a
		}
		return b
	}
	switch t.Op {
	case "const":
		return t.Val.BitLen()
	case "zext":
		return t.Args[0].ub
	case "bvand":
		return min(t.Args[0].ub, t.Args[1].ub)
	case "bvor", "bvxor":
		return max(t.Args[0].ub, t.Args[1].ub)
	case "bvadd":
		return min(t.W, max(t.Args[0].ub, t.Args[1].ub)+1)
	case "bvlshr":
		if c := t.Args[1]; c.Op == "const" && c.Val.IsInt64() {
			return max(0, t.Args[0].ub-int(c.Val.Int64()))
		}
		return t.Args[0].ub
	case "bvudiv":
		if c := t.Args[1]; c.Op == "const" && c.Val.Sign() > 0 {
			return max(0, t.Args[0].ub-(c.Val.BitLen()-1))
		}
		return t.W
	case "bvurem":
		if c := t.Args[1]; c.Op == "const" && c.Val.Sign() > 0 {
			// x mod c < c
			cm := new(big.Int).Sub(c.Val, big.NewInt(1))
			return min(t.Args[0].ub, cm.BitLen())
		}
		return t.W
	case "bvshl":
		if c := t.Args[1]; c.Op == "const" && c.Val.IsInt64() {
			return min(t.W, t.Args[0].ub+int(c.Val.Int64()))
		}
		return t.W
	case "concat":
		if t.Args[0].ub == 0 {
			return t.Args[1].ub
		}
		return t.Args[0].ub + t.Args[1].W
	case "extract":
		return min(t.W, max(0, t.Args[0].ub-t.B))
	case "ite":
		return max(t.Args[1].ub, t.Args[2].ub)
	}
	return t.W
}

func mask(w int) *big.Int {
	m := new(big.Int).Lsh(big.NewInt(1), uint(w))
	return m.Sub(m, big.NewInt(1))
}

func normBV(v *big.Int, w int) *big.Int {
	r := new(big.Int).And(v, mask(w)) // big.Int And on negative uses two's complement
	return r
}

func toSigned(v *big.Int, w int) *big.Int {
	if v.Bit(w-1) == 1 {
		return new(big.Int).Sub(v, new(big.Int).Lsh(big.NewInt(1), uint(w)))
	}
	return new(big.Int).Set(v)
}

func BV(v *big.Int, w int) *Term {
	if w <= 0 {
		panic("BV width")
	}
	return intern(&Term{Op: "const", W: w, Val: normBV(v, w)})
}
func BVi(v int64, w int) *Term { return BV(big.NewInt(v), w) }
func BVu(v uint64, w int) *Term {
	return BV(new(big.Int).SetUint64(v), w)
}

var (
	tTrue  = intern(&Term{Op: "const", W: 0, Val: big.NewInt(1)})
	tFalse = intern(&Term{Op: "const", W: 0, Val: big.NewInt(0)})
)

func Bool(b bool) *Term {
	if b {
		return tTrue
	}
	return tFalse
}

func Var(name string, w int) *Term { return intern(&Term{Op: "var", W: w, Name: name}) }

func (t *Term) IsConst() bool { return t.Op == "const" }
func (t *Term) IsTrue() bool  { return t == tTrue }
func (t *Term) IsFalse() bool { return t == tFalse }
func (t *Term) Int64() int64  { return toSigned(t.Val, t.W).Int64() }
func (t *Term) Uint64() uint64 {
	return t.Val.Uint64()
}

func allConst(a ...*Term) bool {
	for _, x := range a {
		if x.Op != "const" {
			return false
		}
	}
	return true
}

func mk(op string, w int, args ...*Term) *Term {
	return intern(&Term{Op: op, W: w, Args: args})
}

// ---- Bool ops

func Not(a *Term) *Term {
	if a.W != 0 {
		panic("Not on non-bool")
	}
	if a.IsConst() {
		return Bool(a.Val.Sign() == 0)
	}
	if a.Op == "not" {
		return a.Args[0]
	}
	return mk("not", 0, a)
}

func And(xs ...*Term) *Term {
	var out []*Term
	seen := map[int]bool{}
	for _, x := range xs {
		if x.W != 0 {
			panic("And on non-bool")
		}
		if x.IsFalse() {
			return tFalse
		}
		if x.IsTrue() {
			continue
		}
		if x.Op == "and" {
			for _, y := range x.Args {
				if !seen[y.id] {
					seen[y.id] = true
					out = append(out, y)
				}
			}
			continue
		}
		if !seen[x.id] {
			seen[x.id] = true
			out = append(out, x)
		}
	}
	for _, x := range out {
		if x.Op == "not" && seen[x.Args[0].id] {
			return tFalse
		}
	}
	if len(out) == 0 {
		return tTrue
	}
	if len(out) == 1 {
		return out[0]
	}
	return mk("and", 0, out...)
}

func Or(xs ...*Term) *Term {
	var out []*Term
	seen := map[int]bool{}
	for _, x := range xs {
		if x.W != 0 {
			panic("Or on non-bool")
		}
		if x.IsTrue() {
			return tTrue
		}
		if x.IsFalse() {
			continue
		}
		if x.Op == "or" {
			for _, y := range x.Args {
				if !seen[y.id] {
					seen[y.id] = true
					out = append(out, y)
				}
			}
			continue
		}
		if !seen[x.id] {
			seen[x.id] = true
			out = append(out, x)
		}
	}
	for _, x := range out {
		if x.Op == "not" && seen[x.Args[0].id] {
			return tTrue
		}
	}
	if len(out) == 0 {
		return tFalse
	}
	if len(out) == 1 {
		return out[0]
	}
	return mk("or", 0, out...)
}

func Implies(a, b *Term) *Term { return Or(Not(a), b) }
func Iff(a, b *Term) *Term     { return Eq(a, b) }

func Eq(a, b *Term) *Term {
	if a.W != b.W {
		panic(fmt.Sprintf("Eq width mismatch %d %d (%s, %s)", a.W, b.W, a.Op, b.Op))
	}
	if a == b {
		return tTrue
	}
	if allConst(a, b) {
		return Bool(a.Val.Cmp(b.Val) == 0)
	}
	if a.W == 0 {
		if a.IsTrue() {
			return b
		}
		if b.IsTrue() {
			return a
		}
		if a.IsFalse() {
			return Not(b)
		}
		if b.IsFalse() {
			return Not(a)
		}
	} else {
		// range-based refutation
		if a.IsConst() && a.Val.BitLen() > b.ub {
			return tFalse
		}
		if b.IsConst() && b.Val.BitLen() > a.ub {
			return tFalse
		}
		// eq(ite(c, k1, k2), k) with constants
		if b.IsConst() && a.Op == "ite" {
			return Ite(a.Args[0], Eq(a.Args[1], b), Eq(a.Args[2], b))
		}
		if a.IsConst() && b.Op == "ite" {
			return Ite(b.Args[0], Eq(a, b.Args[1]), Eq(a, b.Args[2]))
		}
		// eq(zext(x), zext(y)) same amount
		if a.Op == "zext" && b.Op == "zext" && a.Args[0].W == b.Args[0].W {
			return Eq(a.Args[0], b.Args[0])
		}
		if a.Op == "zext" && b.IsConst() {
			return Eq(a.Args[0], BV(b.Val, a.Args[0].W)) // b.Val.BitLen()<=a.ub<=inner W guaranteed above
		}
		if b.Op == "zext" && a.IsConst() {
			return Eq(b.Args[0], BV(a.Val, b.Args[0].W))
		}
	}
	if a.id > b.id {
		a, b = b, a
	}
	return mk("=", 0, a, b)
}

func Ne(a, b *Term) *Term { return Not(Eq(a, b)) }

func Ite(c, a, b *Term) *Term {
	if c.W != 0 {
		panic("Ite cond not bool")
	}
	if a.W != b.W {
		panic(fmt.Sprintf("Ite width mismatch %d %d", a.W, b.W))
	}
	if c.IsTrue() {
		return a
	}
	if c.IsFalse() {
		return b
	}
	if a == b {
		return a
	}
	if a.W == 0 {
		if a.IsTrue() && b.IsFalse() {
			return c
		}
		if a.IsFalse() && b.IsTrue() {
			return Not(c)
		}
		if a.IsTrue() {
			return Or(c, b)
		}
		if a.IsFalse() {
			return And(Not(c), b)
		}
		if b.IsTrue() {
			return Or(Not(c), a)
		}
		if b.IsFalse() {
			return And(c, a)
		}
	}
	return mk("ite", a.W, c, a, b)
}

func cmpOp(op string, a, b *Term) *Term {
	if a.W != b.W || a.W == 0 {
		panic(fmt.Sprintf("%s width mismatch %d %d", op, a.W, b.W))
	}
	if allConst(a, b) {
		var c int
		if op == "bvult" || op == "bvule" {
			c = a.Val.Cmp(b.Val)
		} else {
			c = toSigned(a.Val, a.W).Cmp(toSigned(b.Val, b.W))
		}
		if op == "bvult" || op == "bvslt" {
			return Bool(c < 0)
		}
		return Bool(c <= 0)
	}
	if a == b {
		return Bool(op == "bvule" || op == "bvsle")
	}
	// cheap range reasoning for unsigned compares against constants
	if op == "bvult" && b.IsConst() {
		// a < c  if 2^ub(a) <= c
		lim := new(big.Int).Lsh(big.NewInt(1), uint(a.ub))
		if lim.Cmp(b.Val) <= 0 {
			return tTrue
		}
		if b.Val.Sign() == 0 {
			return tFalse
		}
	}
	if op == "bvule" && a.IsConst() && a.Val.Sign() == 0 {
		return tTrue
	}
	if op == "bvule" && b.IsConst() {
		lim := new(big.Int).Lsh(big.NewInt(1), uint(a.ub))
		lim.Sub(lim, big.NewInt(1))
		if lim.Cmp(b.Val) <= 0 {
			return tTrue
		}
	}
	if (op == "bvslt" || op == "bvsle") && a.ub < a.W && b.ub < b.W {
		// both provably non-negative: same as unsigned
		if op == "bvslt" {
			return cmpOp("bvult", a, b)
		}
		return cmpOp("bvule", a, b)
	}
	return mk(op, 0, a, b)
}

func Ult(a, b *Term) *Term { return cmpOp("bvult", a, b) }
func Ule(a, b *Term) *Term { return cmpOp("bvule", a, b) }
func Slt(a, b *Term) *Term { return cmpOp("bvslt", a, b) }
func Sle(a, b *Term) *Term { return cmpOp("bvsle", a, b) }

// ---- BV ops

func bin(op string, a, b *Term) *Term {
	if a.W != b.W || a.W == 0 {
		panic(fmt.Sprintf("%s width mismatch %d %d", op, a.W, b.W))
	}
	w := a.W
	if allConst(a, b) {
		x, y := a.Val, b.Val
		r := new(big.Int)
		switch op {
		case "bvadd":
			r.Add(x, y)
		case "bvsub":
			r.Sub(x, y)
		case "bvmul":
			r.Mul(x, y)
		case "bvand":
			r.And(x, y)
		case "bvor":
			r.Or(x, y)
		case "bvxor":
			r.Xor(x, y)
		case "bvudiv":
			if y.Sign() == 0 {
				r = mask(w)
			} else {
				r.Quo(x, y)
			}
		case "bvurem":
			if y.Sign() == 0 {
				r.Set(x)
			} else {
				r.Rem(x, y)
			}
		case "bvsdiv":
			sx, sy := toSigned(x, w), toSigned(y, w)
			if sy.Sign() == 0 {
				if sx.Sign() < 0 {
					r.SetInt64(1)
				} else {
					r = mask(w)
				}
			} else {
				r.Quo(sx, sy)
			}
		case "bvsrem":
			sx, sy := toSigned(x, w), toSigned(y, w)
			if sy.Sign() == 0 {
				r.Set(sx)
			} else {
				r.Rem(sx, sy)
			}
		case "bvshl":
			if y.Cmp(big.NewInt(int64(w))) >= 0 {
				r.SetInt64(0)
			} else {
				r.Lsh(x, uint(y.Int64()))
			}
		case "bvlshr":
			if y.Cmp(big.NewInt(int64(w))) >= 0 {
				r.SetInt64(0)
			} else {
				r.Rsh(x, uint(y.Int64()))
			}
		case "bvashr":
			sx := toSigned(x, w)
			if y.Cmp(big.NewInt(int64(w))) >= 0 {
				if sx.Sign() < 0 {
					r.SetInt64(-1)
				} else {
					r.SetInt64(0)
				}
			} else {
				r.Rsh(sx, uint(y.Int64()))
			}
		default:
			panic("bin fold " + op)
		}
		return BV(r, w)
	}
	isZero := func(t *Term) bool { return t.IsConst() && t.Val.Sign() == 0 }
	switch op {
	case "bvadd", "bvor", "bvxor":
		if isZero(a) {
			return b
		}
		if isZero(b) {
			return a
		}
	case "bvsub", "bvshl", "bvlshr", "bvashr":
		if isZero(b) {
			return a
		}
		if op == "bvsub" && a == b {
			return BVi(0, w)
		}
		if op != "bvsub" && isZero(a) {
			return a
		}
	case "bvand":
		if isZero(a) {
			return a
		}
		if isZero(b) {
			return b
		}
		if b.IsConst() && b.Val.Cmp(mask(w)) == 0 {
			return a
		}
		if a.IsConst() && a.Val.Cmp(mask(w)) == 0 {
			return b
		}
	case "bvmul":
		if isZero(a) {
			return a
		}
		if isZero(b) {
			return b
		}
		if b.IsConst() && b.Val.Cmp(big.NewInt(1)) == 0 {
			return a
		}
		if a.IsConst() && a.Val.Cmp(big.NewInt(1)) == 0 {
			return b
		}
	case "bvsdiv", "bvsrem":
		if a.ub < w && b.ub < w {
			// both provably non-negative
			if op == "bvsdiv" {
				return bin("bvudiv", a, b)
			}
			return bin("bvurem", a, b)
		}
	case "bvudiv":
		if b.IsConst() && b.Val.Cmp(big.NewInt(1)) == 0 {
			return a
		}
		// division by a constant power of two is a logical shift
		if b.IsConst() && b.Val.Sign() > 0 {
			k := b.Val.BitLen() - 1
			if new(big.Int).Lsh(big.NewInt(1), uint(k)).Cmp(b.Val) == 0 {
				return bin("bvlshr", a, BVi(int64(k), w))
			}
		}
	case "bvurem":
		if b.IsConst() && b.Val.Sign() > 0 {
			k := b.Val.BitLen() - 1
			if new(big.Int).Lsh(big.NewInt(1), uint(k)).Cmp(b.Val) == 0 {
				return bin("bvand", a, BV(new(big.Int).Sub(b.Val, big.NewInt(1)), w))
			}
		}
	}
	if (op == "bvudiv" || op == "bvurem") && b.IsConst() && b.Val.Sign() > 0 {
		// narrow the divider circuit to the bits that can be set
		nw := a.ub
		if b.ub > nw {
			nw = b.ub
		}
		if nw == 0 {
			nw = 1
		}
		if nw+8 < w {
			return ZExt(mk(op, nw, Extract(nw-1, 0, a), Extract(nw-1, 0, b)), w)
		}
	}
	return mk(op, w, a, b)
}

func Add(a, b *Term) *Term  { return bin("bvadd", a, b) }
func Sub(a, b *Term) *Term  { return bin("bvsub", a, b) }
func Mul(a, b *Term) *Term  { return bin("bvmul", a, b) }
func BAnd(a, b *Term) *Term { return bin("bvand", a, b) }
func BOr(a, b *Term) *Term  { return bin("bvor", a, b) }
func BXor(a, b *Term) *Term { return bin("bvxor", a, b) }
func UDiv(a, b *Term) *Term { return bin("bvudiv", a, b) }
func URem(a, b *Term) *Term { return bin("bvurem", a, b) }
func SDiv(a, b *Term) *Term { return bin("bvsdiv", a, b) }
func SRem(a, b *Term) *Term { return bin("bvsrem", a, b) }
func Shl(a, b *Term) *Term  { return bin("bvshl", a, b) }
func LShr(a, b *Term) *Term { return bin("bvlshr", a, b) }
func AShr(a, b *Term) *Term { return bin("bvashr", a, b) }

func BNot(a *Term) *Term {
	if a.IsConst() {
		return BV(new(big.Int).Xor(a.Val, mask(a.W)), a.W)
	}
	return mk("bvnot", a.W, a)
}
func Neg(a *Term) *Term {
	if a.IsConst() {
		return BV(new(big.Int).Neg(a.Val), a.W)
	}
	return mk("bvneg", a.W, a)
}

func Concat(hi, lo *Term) *Term {
	if allConst(hi, lo) {
		v := new(big.Int).Lsh(hi.Val, uint(lo.W))
		v.Or(v, lo.Val)
		return BV(v, hi.W+lo.W)
	}
	return mk("concat", hi.W+lo.W, hi, lo)
}

func Extract(hi, lo int, a *Term) *Term {
	if hi < lo || lo < 0 || hi >= a.W {
		panic(fmt.Sprintf("bad extract [%d:%d] of width %d", hi, lo, a.W))
	}
	if lo == 0 && hi == a.W-1 {
		return a
	}
	w := hi - lo + 1
	if a.IsConst() {
		return BV(new(big.Int).Rsh(a.Val, uint(lo)), w)
	}
	if a.ub <= lo {
		return BVi(0, w)
	}
	switch a.Op {
	case "zext":
		in := a.Args[0]
		if hi < in.W {
			return Extract(hi, lo, in)
		}
		if lo >= in.W {
			return BVi(0, w)
		}
		return ZExt(Extract(in.W-1, lo, in), w)
	case "concat":
		h, l := a.Args[0], a.Args[1]
		if hi < l.W {
			return Extract(hi, lo, l)
		}
		if lo >= l.W {
			return Extract(hi-l.W, lo-l.W, h)
		}
	case "extract":
		return Extract(hi+a.B, lo+a.B, a.Args[0])
	case "bvor", "bvand", "bvxor":
		// bitwise operators commute with extraction; worthwhile when one side is a constant
		if len(a.Args) == 2 && (a.Args[0].IsConst() || a.Args[1].IsConst()) {
			return bin(a.Op, Extract(hi, lo, a.Args[0]), Extract(hi, lo, a.Args[1]))
		}
	}
	return intern(&Term{Op: "extract", W: w, Args: []*Term{a}, A: hi, B: lo})
}

// ZExt extends to total width w.
func ZExt(a *Term, w int) *Term {
	if w < a.W {
		panic("zext narrower")
	}
	if w == a.W {
		return a
	}
	if a.IsConst() {
		return BV(a.Val, w)
	}
	if a.Op == "zext" {
		a = a.Args[0]
	}
	return intern(&Term{Op: "zext", W: w, Args: []*Term{a}, A: w - a.W})
}

func SExt(a *Term, w int) *Term {
	if w < a.W {
		panic("sext narrower")
	}
	if w == a.W {
		return a
	}
	if a.IsConst() {
		return BV(toSigned(a.Val, a.W), w)
	}
	if a.ub < a.W {
		return ZExt(a, w)
	}
	return intern(&Term{Op: "sext", W: w, Args: []*Term{a}, A: w - a.W})
}

// Resize truncates or extends (signed or unsigned source) to width w.
func Resize(a *Term, w int, signed bool) *Term {
	if w == a.W {
		return a
	}
	if w < a.W {
		return Extract(w-1, 0, a)
	}
	if signed {
		return SExt(a, w)
	}
	return ZExt(a, w)
}

// UF application. Sorts are given by argument widths and result width.
func UF(name string, w int, args ...*Term) *Term {
	return intern(&Term{Op: "uf", W: w, Name: name, Args: args})
}

// ---- printing

func sortOf(w int) string {
	if w == 0 {
		return "Bool"
	}
	return fmt.Sprintf("(_ BitVec %d)", w)
}

func constStr(t *Term) string {
	if t.W == 0 {
		if t.Val.Sign() != 0 {
			return "true"
		}
		return "false"
	}
	if t.W%4 == 0 {
		s := t.Val.Text(16)
		return "#x" + strings.Repeat("0", t.W/4-len(s)) + s
	}
	s := t.Val.Text(2)
	return "#b" + strings.Repeat("0", t.W-len(s)) + s
}

func (t *Term) ref() string {
	switch t.Op {
	case "const":
		return constStr(t)
	case "var":
		return t.Name
	}
	return fmt.Sprintf("t%d", t.id)
}

// body returns the SMT-LIB expression of t in terms of refs of its args.
func (t *Term) body() string {
	as := make([]string, len(t.Args))
	for i, a := range t.Args {
		as[i] = a.ref()
	}
	j := strings.Join(as, " ")
	switch t.Op {
	case "extract":
		return fmt.Sprintf("((_ extract %d %d) %s)", t.A, t.B, j)
	case "zext":
		return fmt.Sprintf("((_ zero_extend %d) %s)", t.A, j)
	case "sext":
		return fmt.Sprintf("((_ sign_extend %d) %s)", t.A, j)
	case "uf":
		return fmt.Sprintf("(%s %s)", t.Name, j)
	}
	return fmt.Sprintf("(%s %s)", t.Op, j)
}

// String renders a (small) term fully, for evidence samples and debugging.
func (t *Term) String() string {
	if t.Op == "const" || t.Op == "var" {
		return t.ref()
	}
	as := make([]string, len(t.Args))
	for i, a := range t.Args {
		as[i] = a.String()
	}
	j := strings.Join(as, " ")
	switch t.Op {
	case "extract":
		return fmt.Sprintf("((_ extract %d %d) %s)", t.A, t.B, j)
	case "zext":
		return fmt.Sprintf("((_ zero_extend %d) %s)", t.A, j)
	case "sext":
		return fmt.Sprintf("((_ sign_extend %d) %s)", t.A, j)
	case "uf":
		return fmt.Sprintf("(%s %s)", t.Name, j)
	}
	return fmt.Sprintf("(%s %s)", t.Op, j)
}

func (t *Term) Size() int {
	seen := map[int]bool{}
	var rec func(*Term)
	rec = func(x *Term) {
		if seen[x.id] {
			return
		}
		seen[x.id] = true
		for _, a := range x.Args {
			rec(a)
		}
	}
	rec(t)
	return len(seen)
}

// Eval evaluates t under a (total for the vars it meets) assignment; UF via callback.
func Eval(t *Term, env map[string]*big.Int, uf func(name string, args []*big.Int) *big.Int, memo map[int]*big.Int) *big.Int {
	if v, ok := memo[t.id]; ok {
		return v
	}
	var r *big.Int
	switch t.Op {
	case "const":
		r = t.Val
	case "var":
		v, ok := env[t.Name]
		if !ok {
			v = big.NewInt(0)
		}
		r = v
	case "uf":
		as := make([]*big.Int, len(t.Args))
		for i, a := range t.Args {
			as[i] = Eval(a, env, uf, memo)
		}
		r = normBV(uf(t.Name, as), t.W)
	default:
		as := make([]*Term, len(t.Args))
		for i, a := range t.Args {
			v := Eval(a, env, uf, memo)
			if a.W == 0 {
				as[i] = Bool(v.Sign() != 0)
			} else {
				as[i] = BV(v, a.W)
			}
		}
		var c *Term
		switch t.Op {
		case "not":
			c = Not(as[0])
		case "and":
			c = And(as...)
		case "or":
			c = Or(as...)
		case "=":
			c = Eq(as[0], as[1])
		case "ite":
			c = Ite(as[0], as[1], as[2])
		case "bvult", "bvule", "bvslt", "bvsle":
			c = cmpOp(t.Op, as[0], as[1])
		case "bvnot":
			c = BNot(as[0])
		case "bvneg":
			c = Neg(as[0])
		case "concat":
			c = Concat(as[0], as[1])
		case "extract":
			c = Extract(t.A, t.B, as[0])
		case "zext":
			c = ZExt(as[0], t.W)
		case "sext":
			c = SExt(as[0], t.W)
		default:
			c = bin(t.Op, as[0], as[1])
		}
		if !c.IsConst() {
			panic("Eval: not folded: " + t.Op)
		}
		r = c.Val
	}
	memo[t.id] = r
	return r
}

// Subst rebuilds t with variables replaced by constants (env: name -> value), re-simplifying.
func Subst(t *Term, env map[string]*big.Int, memo map[int]*Term) *Term {
	if t.Op == "const" {
		return t
	}
	if r, ok := memo[t.id]; ok {
		return r
	}
	var r *Term
	switch t.Op {
	case "var":
		if v, ok := env[t.Name]; ok {
			if t.W == 0 {
				r = Bool(v.Sign() != 0)
			} else {
				r = BV(v, t.W)
			}
		} else {
			r = t
		}
	default:
		as := make([]*Term, len(t.Args))
		changed := false
		for i, a := range t.Args {
			as[i] = Subst(a, env, memo)
			if as[i] != a {
				changed = true
			}
		}
		if !changed {
			r = t
			break
		}
		switch t.Op {
		case "not":
			r = Not(as[0])
		case "and":
			r = And(as...)
		case "or":
			r = Or(as...)
		case "=":
			r = Eq(as[0], as[1])
		case "ite":
			r = Ite(as[0], as[1], as[2])
		case "bvult", "bvule", "bvslt", "bvsle":
			r = cmpOp(t.Op, as[0], as[1])
		case "bvnot":
			r = BNot(as[0])
		case "bvneg":
			r = Neg(as[0])
		case "concat":
			r = Concat(as[0], as[1])
		case "extract":
			r = Extract(t.A, t.B, as[0])
		case "zext":
			r = ZExt(as[0], t.W)
		case "sext":
			r = SExt(as[0], t.W)
		case "uf":
			r = UF(t.Name, t.W, as...)
		default:
			r = bin(t.Op, as[0], as[1])
		}
	}
	memo[t.id] = r
	return r
}

// Vars lists the variable names occurring in t (up to limit).
func Vars(t *Term, limit int) []*Term {
	seen := map[int]bool{}
	var out []*Term
	var rec func(*Term)
	rec = func(x *Term) {
		if seen[x.id] || len(out) > limit {
			return
		}
		seen[x.id] = true
		if x.Op == "var" {
			out = append(out, x)
			return
		}
		for _, a := range x.Args {
			rec(a)
		}
	}
	rec(t)
	return out
}

// knownBits: a conservative (mask, value) pair — every bit set in mask has the value given in val
// whatever the variables are. Used to prune constant tables before they reach the solver.
func knownBits(t *Term, depth int) (mask, val *big.Int) {
	all := new(big.Int).Sub(new(big.Int).Lsh(big.NewInt(1), uint(t.W)), big.NewInt(1))
	if t.IsConst() {
		return all, new(big.Int).Set(t.Val)
	}
	// bits at or above the unsigned bound are zero
	mask = new(big.Int)
	val = new(big.Int)
	if t.ub < t.W {
		hi := new(big.Int).Lsh(new(big.Int).Sub(new(big.Int).Lsh(big.NewInt(1), uint(t.W-t.ub)), big.NewInt(1)), uint(t.ub))
		mask.Or(mask, hi)
	}
	if depth <= 0 {
		return mask, val
	}
	merge := func(m, v *big.Int) {
		mask.Or(mask, m)
		val.Or(val, new(big.Int).And(v, m))
	}
	constShift := func(a *Term) (int, bool) {
		if a.IsConst() && a.Val.IsInt64() && a.Val.Int64() >= 0 && a.Val.Int64() < int64(t.W) {
			return int(a.Val.Int64()), true
		}
		return 0, false
	}
	switch t.Op {
	case "zext":
		m, v := knownBits(t.Args[0], depth-1)
		hi := new(big.Int).Lsh(new(big.Int).Sub(new(big.Int).Lsh(big.NewInt(1), uint(t.W-t.Args[0].W)), big.NewInt(1)), uint(t.Args[0].W))
		merge(new(big.Int).Or(m, hi), v)
	case "concat":
		mh, vh := knownBits(t.Args[0], depth-1)
		ml, vl := knownBits(t.Args[1], depth-1)
		lw := uint(t.Args[1].W)
		merge(new(big.Int).Or(new(big.Int).Lsh(mh, lw), ml), new(big.Int).Or(new(big.Int).Lsh(vh, lw), vl))
	case "bvor", "bvand":
		if len(t.Args) != 2 {
			break
		}
		ma, va := knownBits(t.Args[0], depth-1)
		mb, vb := knownBits(t.Args[1], depth-1)
		one := func(m, v *big.Int) *big.Int { return new(big.Int).And(m, v) }
		zero := func(m, v *big.Int) *big.Int { return new(big.Int).AndNot(m, v) }
		var k1, k0 *big.Int
		if t.Op == "bvor" {
			k1 = new(big.Int).Or(one(ma, va), one(mb, vb))
			k0 = new(big.Int).And(zero(ma, va), zero(mb, vb))
		} else {
			k1 = new(big.Int).And(one(ma, va), one(mb, vb))
			k0 = new(big.Int).Or(zero(ma, va), zero(mb, vb))
		}
		merge(new(big.Int).Or(k1, k0), k1)
	case "bvshl":
		if n, ok := constShift(t.Args[1]); ok {
			m, v := knownBits(t.Args[0], depth-1)
			low := new(big.Int).Sub(new(big.Int).Lsh(big.NewInt(1), uint(n)), big.NewInt(1))
			merge(new(big.Int).And(new(big.Int).Or(new(big.Int).Lsh(m, uint(n)), low), all), new(big.Int).And(new(big.Int).Lsh(v, uint(n)), all))
		}
	}
	val.And(val, mask)
	return mask, val
}
