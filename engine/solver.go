package main

// One long-lived solver process per Solver; SMT-LIB2 text over a pipe.
// Definitions (define-fun per DAG node) live at the base level; asserts are
// sent inside push/pop. Any "(error" line, "unknown" or timeout = inconclusive.

import (
	"bufio"
	"fmt"
	"io"
	"math/big"
	"os"
	"os/exec"
	"strings"
	"sync/atomic"
	"syscall"
	"time"
)

type SolverKind struct {
	Name string
	Argv []string
}

var solverKinds = map[string]SolverKind{
	"z3-new": {"z3-new", []string{"z3-new", "-in"}},
	"z3":     {"z3", []string{"z3", "-in"}},
	"cvc5":   {"cvc5", []string{"cvc5", "--incremental", "--produce-models", "--lang=smt2"}},
}

type SolverStats struct {
	Queries  int64
	Sat      int64
	Unsat    int64
	Unknown  int64
	Errors   int64
	Restarts int64
	Nanos    int64
	MaxNanos int64
}

type Solver struct {
	kind      SolverKind
	cmd       *exec.Cmd
	in        io.WriteCloser
	out       *bufio.Reader
	defined   map[int]bool
	declared  map[string]bool
	timeoutMs int
	seed      int
	stats     *SolverStats
	log       io.Writer
	lastErr   string
	// oneShot: a process used for a single check without push/pop, so that the solver applies its
	// non-incremental preprocessing (bit-blasting tactics); decides hash-like arithmetic that the
	// incremental core does not.
	oneShot bool
}

// hasMulXor: the formula contains a multiplication (hash-like arithmetic).
func hasMul(ts []*Term) bool {
	seen := map[int]bool{}
	var rec func(t *Term) bool
	rec = func(t *Term) bool {
		if seen[t.id] {
			return false
		}
		seen[t.id] = true
		if t.Op == "bvmul" {
			return true
		}
		for _, a := range t.Args {
			if rec(a) {
				return true
			}
		}
		return false
	}
	for _, t := range ts {
		if rec(t) {
			return true
		}
	}
	return false
}

func NewSolver(kind string, timeoutMs, seed int, stats *SolverStats) *Solver {
	k, ok := solverKinds[kind]
	if !ok {
		panic("unknown solver " + kind)
	}
	s := &Solver{kind: k, timeoutMs: timeoutMs, seed: seed, stats: stats}
	s.start()
	return s
}

func (s *Solver) start() {
	s.defined = map[int]bool{}
	s.declared = map[string]bool{}
	argv := append([]string{}, s.kind.Argv...)
	if s.kind.Name == "cvc5" {
		argv = append(argv, fmt.Sprintf("--tlimit-per=%d", s.timeoutMs))
	}
	s.cmd = exec.Command(argv[0], argv[1:]...)
	s.cmd.SysProcAttr = &syscall.SysProcAttr{Pdeathsig: syscall.SIGKILL}
	in, err := s.cmd.StdinPipe()
	if err != nil {
		panic(err)
	}
	out, err := s.cmd.StdoutPipe()
	if err != nil {
		panic(err)
	}
	s.cmd.Stderr = s.cmd.Stdout
	s.in = in
	s.out = bufio.NewReaderSize(out, 1<<20)
	if err := s.cmd.Start(); err != nil {
		panic(fmt.Sprintf("cannot start solver %s: %v", s.kind.Name, err))
	}
	if s.kind.Name == "cvc5" {
		s.send("(set-logic ALL)")
		s.send(fmt.Sprintf("(set-option :seed %d)", s.seed%1000000))
	} else {
		s.send("(set-option :produce-models true)")
		s.send(fmt.Sprintf("(set-option :timeout %d)", s.timeoutMs))
		s.send(fmt.Sprintf("(set-option :smt.random_seed %d)", s.seed%1000000))
		s.send(fmt.Sprintf("(set-option :sat.random_seed %d)", s.seed%1000000))
	}
}

func (s *Solver) Close() {
	if s.cmd != nil && s.cmd.Process != nil {
		s.in.Close()
		s.cmd.Process.Kill()
		s.cmd.Wait()
	}
}

func (s *Solver) restart() {
	atomic.AddInt64(&s.stats.Restarts, 1)
	s.Close()
	s.start()
}

func (s *Solver) send(line string) {
	if s.log != nil {
		fmt.Fprintln(s.log, line)
	}
	io.WriteString(s.in, line)
	io.WriteString(s.in, "\n")
}

// define emits declarations/definitions for every node under t.
func (s *Solver) define(t *Term, sb *strings.Builder) {
	if t.Op == "const" {
		return
	}
	if s.defined[t.id] {
		return
	}
	// iterative post-order to avoid deep recursion on long chains
	type fr struct {
		t *Term
		i int
	}
	st := []fr{{t, 0}}
	for len(st) > 0 {
		f := &st[len(st)-1]
		if f.i < len(f.t.Args) {
			a := f.t.Args[f.i]
			f.i++
			if a.Op != "const" && !s.defined[a.id] {
				st = append(st, fr{a, 0})
			}
			continue
		}
		x := f.t
		st = st[:len(st)-1]
		if s.defined[x.id] {
			continue
		}
		s.defined[x.id] = true
		switch x.Op {
		case "var":
			fmt.Fprintf(sb, "(declare-const %s %s)\n", x.Name, sortOf(x.W))
		case "uf":
			if !s.declared[x.Name] {
				s.declared[x.Name] = true
				as := make([]string, len(x.Args))
				for i, a := range x.Args {
					as[i] = sortOf(a.W)
				}
				fmt.Fprintf(sb, "(declare-fun %s (%s) %s)\n", x.Name, strings.Join(as, " "), sortOf(x.W))
			}
			fmt.Fprintf(sb, "(define-fun t%d () %s %s)\n", x.id, sortOf(x.W), x.body())
		default:
			fmt.Fprintf(sb, "(define-fun t%d () %s %s)\n", x.id, sortOf(x.W), x.body())
		}
	}
}

type lineRes struct {
	s   string
	err error
}

// readLine with wall-clock deadline.
func (s *Solver) readLine(deadline time.Duration) (string, error) {
	ch := make(chan lineRes, 1)
	go func() {
		l, err := s.out.ReadString('\n')
		ch <- lineRes{l, err}
	}()
	select {
	case r := <-ch:
		return strings.TrimRight(r.s, "\r\n"), r.err
	case <-time.After(deadline):
		return "", fmt.Errorf("timeout")
	}
}

// readSexp reads a balanced s-expression (possibly spanning lines).
func (s *Solver) readSexp(deadline time.Duration) (string, error) {
	var sb strings.Builder
	depth := 0
	started := false
	for {
		l, err := s.readLine(deadline)
		if err != nil {
			return sb.String(), err
		}
		sb.WriteString(l)
		sb.WriteByte(' ')
		for _, c := range l {
			if c == '(' {
				depth++
				started = true
			} else if c == ')' {
				depth--
			}
		}
		if started && depth <= 0 {
			return sb.String(), nil
		}
		if !started && strings.TrimSpace(l) != "" {
			return sb.String(), nil
		}
	}
}

// Check decides the conjunction of asserts. If want is non-empty and the result
// is sat, values of those terms are returned (same order).
func (s *Solver) Check(asserts []*Term, want []*Term) (string, []*big.Int) {
	t0 := time.Now()
	res, vals := s.check1(asserts, want)
	if res == "unknown" && !s.oneShot && s.kind.Name != "cvc5" && strings.Contains(s.lastErr, "unknown (timeout)") && hasMul(asserts) {
		// second attempt in a fresh non-incremental process
		o := &Solver{kind: s.kind, timeoutMs: s.timeoutMs, seed: s.seed, stats: s.stats, oneShot: true}
		o.start()
		res, vals = o.check1(asserts, want)
		o.Close()
		if res != "unknown" {
			s.lastErr = ""
		}
	}
	d := time.Since(t0).Nanoseconds()
	if slow := os.Getenv("VERIF_SLOWLOG"); slow != "" && d > 500e6 {
		f, _ := os.OpenFile(slow, os.O_APPEND|os.O_CREATE|os.O_WRONLY, 0644)
		fmt.Fprintf(f, "---- %.2fs %s\n", float64(d)/1e9, res)
		for _, a := range asserts {
			str := a.String()
			if len(str) > 600 {
				str = str[:600] + "..."
			}
			fmt.Fprintf(f, "  %s\n", str)
		}
		f.Close()
	}
	atomic.AddInt64(&s.stats.Queries, 1)
	atomic.AddInt64(&s.stats.Nanos, d)
	for {
		m := atomic.LoadInt64(&s.stats.MaxNanos)
		if d <= m || atomic.CompareAndSwapInt64(&s.stats.MaxNanos, m, d) {
			break
		}
	}
	switch res {
	case "sat":
		atomic.AddInt64(&s.stats.Sat, 1)
	case "unsat":
		atomic.AddInt64(&s.stats.Unsat, 1)
	default:
		atomic.AddInt64(&s.stats.Unknown, 1)
	}
	return res, vals
}

func (s *Solver) check1(asserts []*Term, want []*Term) (string, []*big.Int) {
	for _, a := range asserts {
		if a.IsFalse() {
			return "unsat", nil
		}
	}
	var sb strings.Builder
	for _, a := range asserts {
		s.define(a, &sb)
	}
	for _, w := range want {
		s.define(w, &sb)
	}
	if !s.oneShot {
		sb.WriteString("(push 1)\n")
	}
	for _, a := range asserts {
		if a.IsTrue() {
			continue
		}
		fmt.Fprintf(&sb, "(assert %s)\n", a.ref())
	}
	sb.WriteString("(check-sat)")
	wall := time.Duration(s.timeoutMs)*time.Millisecond + 5*time.Second
	// the write itself can block (pipe full while the solver chews on an earlier definition): bound it too
	{
		done := make(chan struct{})
		txt := sb.String()
		go func() { s.send(txt); close(done) }()
		select {
		case <-done:
		case <-time.After(wall):
			s.lastErr = "timeout while sending the query"
			s.restart()
			return "unknown", nil
		}
	}
	var res string
	for {
		l, err := s.readLine(wall)
		if err != nil {
			s.lastErr = "timeout/io: " + err.Error()
			s.restart()
			return "unknown", nil
		}
		l = strings.TrimSpace(l)
		if l == "" {
			continue
		}
		if strings.HasPrefix(l, "(error") {
			atomic.AddInt64(&s.stats.Errors, 1)
			s.lastErr = l
			s.restart()
			return "unknown", nil
		}
		if l == "sat" || l == "unsat" || l == "unknown" || l == "timeout" {
			res = l
			if l == "unknown" || l == "timeout" {
				s.lastErr = "solver answered unknown (timeout)"
			}
			break
		}
		// warnings etc.: ignore
	}
	if res == "timeout" {
		res = "unknown"
	}
	var vals []*big.Int
	if res == "sat" && len(want) > 0 {
		refs := make([]string, len(want))
		for i, w := range want {
			refs[i] = w.ref()
		}
		// chunk to keep lines reasonable
		vals = make([]*big.Int, 0, len(want))
		for i := 0; i < len(refs); i += 200 {
			j := i + 200
			if j > len(refs) {
				j = len(refs)
			}
			s.send("(get-value (" + strings.Join(refs[i:j], " ") + "))")
			txt, err := s.readSexp(wall)
			if err != nil || strings.Contains(txt, "(error") {
				s.lastErr = "get-value: " + txt
				s.restart()
				return "unknown", nil
			}
			vs, perr := parseValues(txt, j-i)
			if perr != nil {
				s.lastErr = perr.Error() + ": " + txt
				s.restart()
				return "unknown", nil
			}
			vals = append(vals, vs...)
		}
	}
	if !s.oneShot {
		s.send("(pop 1)")
	}
	return res, vals
}

// parseValues parses ((ref val) (ref val) ...) into n values.
func parseValues(txt string, n int) ([]*big.Int, error) {
	toks := tokenize(txt)
	// grammar: ( ( ref val ) ... ) where val is atom or ( _ bvN w )
	pos := 0
	next := func() string {
		if pos >= len(toks) {
			return ""
		}
		t := toks[pos]
		pos++
		return t
	}
	if next() != "(" {
		return nil, fmt.Errorf("parse: expected (")
	}
	var out []*big.Int
	for {
		t := next()
		if t == ")" || t == "" {
			break
		}
		if t != "(" {
			return nil, fmt.Errorf("parse: expected pair, got %q", t)
		}
		// ref: atom or parenthesised (skip balanced)
		r := next()
		if r == "(" {
			d := 1
			for d > 0 {
				x := next()
				if x == "(" {
					d++
				} else if x == ")" {
					d--
				} else if x == "" {
					return nil, fmt.Errorf("parse: eof in ref")
				}
			}
		}
		v := next()
		var val *big.Int
		switch {
		case v == "true":
			val = big.NewInt(1)
		case v == "false":
			val = big.NewInt(0)
		case strings.HasPrefix(v, "#x"):
			val, _ = new(big.Int).SetString(v[2:], 16)
		case strings.HasPrefix(v, "#b"):
			val, _ = new(big.Int).SetString(v[2:], 2)
		case v == "(":
			// ( _ bvN w )
			if next() != "_" {
				return nil, fmt.Errorf("parse: unexpected value form")
			}
			bv := next()
			next() // width
			if next() != ")" {
				return nil, fmt.Errorf("parse: unexpected value form")
			}
			val, _ = new(big.Int).SetString(strings.TrimPrefix(bv, "bv"), 10)
		default:
			return nil, fmt.Errorf("parse: unexpected value %q", v)
		}
		if val == nil {
			return nil, fmt.Errorf("parse: bad value %q", v)
		}
		if next() != ")" {
			return nil, fmt.Errorf("parse: expected ) after value")
		}
		out = append(out, val)
	}
	if len(out) != n {
		return nil, fmt.Errorf("parse: got %d values want %d", len(out), n)
	}
	return out, nil
}

func tokenize(s string) []string {
	var toks []string
	i := 0
	for i < len(s) {
		c := s[i]
		switch {
		case c == '(' || c == ')':
			toks = append(toks, string(c))
			i++
		case c == ' ' || c == '\n' || c == '\t' || c == '\r':
			i++
		default:
			j := i
			for j < len(s) && !strings.ContainsRune("() \n\t\r", rune(s[j])) {
				j++
			}
			toks = append(toks, s[i:j])
			i = j
		}
	}
	return toks
}
