package main

import "golang.org/x/tools/go/ssa"

// Heap snapshot after package initialisation, cloned for every path.

type cloner struct{ m map[*Object]*Object }

func (cl *cloner) obj(o *Object) *Object {
	if o == nil {
		return nil
	}
	if n, ok := cl.m[o]; ok {
		return n
	}
	n := &Object{}
	*n = *o
	cl.m[o] = n
	n.Val = cl.val(o.Val)
	if o.Entries != nil {
		n.Entries = make([]MapEntry, len(o.Entries))
		for i, e := range o.Entries {
			n.Entries[i] = MapEntry{Key: cl.val(e.Key), Val: cl.val(e.Val)}
		}
		n.Index = make(map[string]int, len(o.Index))
		for k, v := range o.Index {
			n.Index[k] = v
		}
	}
	if o.Cells != nil {
		n.Cells = make(map[int]*Term, len(o.Cells))
		for k, v := range o.Cells {
			n.Cells[k] = v
		}
	}
	if o.HBuf != nil {
		n.HBuf = append([]HChunk{}, o.HBuf...)
	}
	if o.Wrapped != nil {
		n.Wrapped = cl.val(o.Wrapped)
	}
	return n
}

func (cl *cloner) val(v Value) Value {
	switch a := v.(type) {
	case Ptr:
		return Ptr{Obj: cl.obj(a.Obj), Path: a.Path}
	case SliceV:
		return SliceV{Obj: cl.obj(a.Obj), Off: a.Off, Len: a.Len, Cap: a.Cap}
	case MapV:
		return MapV{Obj: cl.obj(a.Obj)}
	case IfaceV:
		return IfaceV{T: a.T, V: cl.val(a.V)}
	case *StructV:
		n := &StructV{T: a.T, Fields: make([]Value, len(a.Fields))}
		for i, f := range a.Fields {
			n.Fields[i] = cl.val(f)
		}
		return n
	case *ArrV:
		n := &ArrV{Elems: make([]Value, len(a.Elems))}
		for i, f := range a.Elems {
			n.Elems[i] = cl.val(f)
		}
		return n
	case TupleV:
		n := make(TupleV, len(a))
		for i, f := range a {
			n[i] = cl.val(f)
		}
		return n
	case *ClosureV:
		n := &ClosureV{Fn: a.Fn, Bindings: make([]Value, len(a.Bindings))}
		for i, f := range a.Bindings {
			n.Bindings[i] = cl.val(f)
		}
		return n
	}
	return v
}

type heapSnap struct {
	globals map[*ssa.Global]*Object
	externs map[string]*Object
	objN    int
	onceN   int
}

func (x *Exec) snapshot() *heapSnap {
	return &heapSnap{globals: x.globals, externs: x.externs, objN: x.objN, onceN: x.onceN}
}

func (x *Exec) restore(s *heapSnap) {
	cl := &cloner{m: map[*Object]*Object{}}
	x.globals = make(map[*ssa.Global]*Object, len(s.globals))
	for g, o := range s.globals {
		x.globals[g] = cl.obj(o)
	}
	x.externs = make(map[string]*Object, len(s.externs))
	for n, o := range s.externs {
		x.externs[n] = cl.obj(o)
	}
	x.objN = s.objN
	x.onceN = s.onceN
}
