package main

// Intrinsic models of library functions (DESIGN §3.4–3.7, §5).

import (
	"crypto/sha256"
	"crypto/sha512"
	"fmt"
	"go/types"
	"math/big"
	"sort"
	"strconv"
	"strings"

	"golang.org/x/crypto/pbkdf2"
	"golang.org/x/text/unicode/norm"
	"golang.org/x/tools/go/ssa"
)

type intrinsicFn func(x *Exec, fn *ssa.Function, args []Value) Value

var intrinsicTab map[string]intrinsicFn

func init() {
	intrinsicTab = map[string]intrinsicFn{
		"math/big.NewInt":                              bigNewInt,
		"(*math/big.Int).SetBytes":                     bigSetBytes,
		"(*math/big.Int).Bytes":                        bigBytes,
		"(*math/big.Int).FillBytes":                    bigFillBytes,
		"(*math/big.Int).SetInt64":                     bigSetInt64,
		"(*math/big.Int).SetUint64":                    bigSetUint64,
		"(*math/big.Int).Set":                          bigSet,
		"(*math/big.Int).Int64":                        bigInt64,
		"(*math/big.Int).Uint64":                       bigInt64,
		"(*math/big.Int).IsInt64":                      bigIsInt64,
		"(*math/big.Int).IsUint64":                     bigIsUint64,
		"(*math/big.Int).Sign":                         bigSign,
		"(*math/big.Int).Cmp":                          bigCmp,
		"(*math/big.Int).CmpAbs":                       bigCmpAbs,
		"(*math/big.Int).BitLen":                       bigBitLen,
		"(*math/big.Int).Bit":                          bigBit,
		"(*math/big.Int).Add":                          bigArith("add"),
		"(*math/big.Int).Sub":                          bigArith("sub"),
		"(*math/big.Int).Mul":                          bigArith("mul"),
		"(*math/big.Int).Quo":                          bigArith("quo"),
		"(*math/big.Int).Div":                          bigArith("quo"),
		"(*math/big.Int).Rem":                          bigArith("rem"),
		"(*math/big.Int).Mod":                          bigArith("rem"),
		"(*math/big.Int).And":                          bigArith("and"),
		"(*math/big.Int).Or":                           bigArith("or"),
		"(*math/big.Int).Xor":                          bigArith("xor"),
		"(*math/big.Int).AndNot":                       bigArith("andnot"),
		"(*math/big.Int).Lsh":                          bigShift(true),
		"(*math/big.Int).Rsh":                          bigShift(false),
		"(*math/big.Int).Neg":                          bigNeg,
		"(*math/big.Int).Abs":                          bigAbs,
		"crypto/sha256.New":                            sha256New,
		"crypto/sha256.Sum256":                         sha256Sum256,
		"strings.Join":                                 stringsJoin,
		"strings.Split":                                stringsSplit,
		"strings.Fields":                               stringsFields,
		"strings.Contains":                             stringsContains,
		"strings.TrimSpace":                            stringsConcrete1(strings.TrimSpace),
		"strings.ToLower":                              stringsConcrete1(strings.ToLower),
		"strings.ToUpper":                              stringsConcrete1(strings.ToUpper),
		"strings.HasPrefix":                            func(x *Exec, fn *ssa.Function, a []Value) Value { return x.strAffix(a[0], a[1], false) },
		"strings.HasSuffix":                            func(x *Exec, fn *ssa.Function, a []Value) Value { return x.strAffix(a[0], a[1], true) },
		"strings.ReplaceAll":                           stringsReplaceAll,
		"strings.Repeat":                               stringsRepeat,
		"strconv.FormatInt":                            strconvFormatInt,
		"strconv.Itoa":                                 strconvItoa,
		"fmt.Errorf":                                   fmtErrorf,
		"fmt.Sprintf":                                  fmtSprintf,
		"fmt.Sprint":                                   fmtSprint,
		"errors.Is":                                    errorsIs,
		"errors.Unwrap":                                errorsUnwrap,
		"errors.As":                                    errorsAs,
		"(*sync.Once).Do":                              onceDo,
		"(*sync.Mutex).Lock":                           syncNop("lock"),
		"(*sync.Mutex).Unlock":                         syncNop("unlock"),
		"(*sync.RWMutex).Lock":                         syncNop("lock"),
		"(*sync.RWMutex).Unlock":                       syncNop("unlock"),
		"(*sync.RWMutex).RLock":                        syncNop("rlock"),
		"(*sync.RWMutex).RUnlock":                      syncNop("runlock"),
		"(golang.org/x/text/unicode/norm.Form).String": normString,
		"(golang.org/x/text/unicode/norm.Form).Bytes":  normBytes,
		"golang.org/x/crypto/pbkdf2.Key":               pbkdf2Key,
		"bytes.Equal":                                  bytesEqualI,
		"(*sync.Pool).Get":                             poolGet,
		"(*sync.Pool).Put":                             poolPut,
		"sort.SearchStrings":                           sortSearchStrings,
		"crypto/rand.Read":                             randRead,
	}
}

func (x *Exec) intrinsic(fn *ssa.Function) (intrinsicFn, bool) {
	if fn.Pkg == x.P.Pkg && strings.HasPrefix(fn.Name(), "verif") && !verifExecuted[fn.Name()] && fn.Signature.Recv() == nil {
		h, ok := verifPrims[fn.Name()]
		if !ok {
			panic(unsupported("unknown harness primitive " + fn.Name()))
		}
		return h, true
	}
	h, ok := intrinsicTab[fn.String()]
	if !ok {
		if kind, isAtomic := atomicKey(fn); isAtomic {
			return func(x *Exec, fn *ssa.Function, a []Value) Value { return x.atomicOp(fn, kind, a) }, true
		}
	}
	return h, ok
}

// ---------------------------------------------------------------- math/big

func (x *Exec) bigLoad(v Value) BigV {
	p := v.(Ptr)
	if p.Obj == nil {
		x.obligation(tFalse, "nil *big.Int dereference")
	}
	b, ok := x.load(p).(BigV)
	if !ok {
		panic(unsupported("big.Int with unexpected representation"))
	}
	return b
}

func (x *Exec) bigStore(v Value, b BigV) {
	if b.Mag.IsConst() && b.Mag.Val.Sign() == 0 {
		b.Neg = false
	}
	x.store(v.(Ptr), b)
}

func (x *Exec) bigNew(b BigV) Value {
	t := x.bigType()
	o := x.newObj("big.Int", t, b)
	return Ptr{Obj: o}
}

var bigTypeCache types.Type

func (x *Exec) bigType() types.Type { return nil }

// fromInt64 forks on the sign of a possibly-negative int64.
func (x *Exec) bigFromInt64(t *Term) BigV {
	if t.ub < 64 {
		return BigV{Mag: ZExt(t, BigW)}
	}
	if x.branch(Slt(t, BVi(0, 64))) {
		return BigV{Neg: true, Mag: ZExt(Neg(t), BigW)}
	}
	return BigV{Mag: ZExt(t, BigW)}
}

func bigNewInt(x *Exec, fn *ssa.Function, a []Value) Value {
	return x.bigNew(x.bigFromInt64(asTerm(a[0])))
}

func bigSetInt64(x *Exec, fn *ssa.Function, a []Value) Value {
	x.bigStore(a[0], x.bigFromInt64(asTerm(a[1])))
	return a[0]
}

func bigSetUint64(x *Exec, fn *ssa.Function, a []Value) Value {
	x.bigStore(a[0], BigV{Mag: ZExt(asTerm(a[1]), BigW)})
	return a[0]
}

func bigSet(x *Exec, fn *ssa.Function, a []Value) Value {
	x.bigStore(a[0], x.bigLoad(a[1]))
	return a[0]
}

func bigSetBytes(x *Exec, fn *ssa.Function, a []Value) Value {
	sl := a[1].(SliceV)
	if sl.Obj != nil && sl.Obj.Kind == OBigBytes && sl.Off.IsConst() && sl.Off.Val.Sign() == 0 && sl.Len == sl.Obj.BLen {
		x.bigStore(a[0], BigV{Mag: sl.Obj.BMag})
		return a[0]
	}
	elems := x.sliceElems(sl, "SetBytes argument")
	if len(elems)*8 > BigW {
		panic(pathEnd{"bound", fmt.Sprintf("big.Int wider than %d bits", BigW)})
	}
	x.bigStore(a[0], BigV{Mag: bytesToMag(elems, BigW)})
	return a[0]
}

func bytesToMag(elems []Value, w int) *Term {
	if len(elems) == 0 {
		return BVi(0, w)
	}
	m := asTerm(elems[0])
	for _, e := range elems[1:] {
		m = Concat(m, asTerm(e))
	}
	return ZExt(m, w)
}

// byteLen: number of significant bytes of mag (BV64).
func byteLen(mag *Term) *Term {
	maxB := (mag.ub + 7) / 8
	r := BVi(0, 64)
	for k := 1; k <= maxB; k++ {
		// mag >= 2^(8(k-1))  => len >= k
		lim := new(big.Int).Lsh(big.NewInt(1), uint(8*(k-1)))
		r = Ite(Ule(BV(lim, mag.W), mag), BVi(int64(k), 64), r)
	}
	return r
}

func bigBytes(x *Exec, fn *ssa.Function, a []Value) Value {
	b := x.bigLoad(a[0])
	o := x.newObj("big.Bytes", nil, nil)
	o.Kind = OBigBytes
	o.BMag = b.Mag
	o.BLen = byteLen(b.Mag)
	if o.BLen.IsConst() {
		x.materialize(o)
	}
	return SliceV{Obj: o, Off: BVi(0, 64), Len: o.BLen, Cap: o.BLen}
}

func bigFillBytes(x *Exec, fn *ssa.Function, a []Value) Value {
	b := x.bigLoad(a[0])
	sl := a[1].(SliceV)
	n := int(x.concretize(sl.Len, "length of FillBytes buffer").Int64())
	if n*8 < BigW {
		lim := new(big.Int).Lsh(big.NewInt(1), uint(8*n))
		x.obligation(Ult(b.Mag, BV(lim, BigW)), "big: buffer too small to fit value")
	}
	if n == 0 {
		return sl
	}
	if sl.Obj.Kind != OPlain {
		x.materialize(sl.Obj)
	}
	for i := 0; i < n; i++ {
		lo := 8 * (n - 1 - i)
		var v *Term
		if lo+7 < BigW {
			v = Extract(lo+7, lo, b.Mag)
		} else {
			v = BVi(0, 8)
		}
		x.store(Ptr{Obj: sl.Obj, Path: []Sel{{Idx: Add(sl.Off, BVi(int64(i), 64))}}}, v)
	}
	return sl
}

func signedOf(b BigV) *Term {
	lo := Extract(63, 0, b.Mag)
	if b.Neg {
		return Neg(lo)
	}
	return lo
}

func bigInt64(x *Exec, fn *ssa.Function, a []Value) Value { return signedOf(x.bigLoad(a[0])) }

func bigIsInt64(x *Exec, fn *ssa.Function, a []Value) Value {
	b := x.bigLoad(a[0])
	lim := new(big.Int).Lsh(big.NewInt(1), 63)
	if b.Neg {
		return Ule(b.Mag, BV(lim, BigW))
	}
	return Ult(b.Mag, BV(lim, BigW))
}

func bigIsUint64(x *Exec, fn *ssa.Function, a []Value) Value {
	b := x.bigLoad(a[0])
	if b.Neg {
		return tFalse
	}
	return Ult(b.Mag, BV(new(big.Int).Lsh(big.NewInt(1), 64), BigW))
}

func bigSign(x *Exec, fn *ssa.Function, a []Value) Value {
	b := x.bigLoad(a[0])
	z := Eq(b.Mag, BVi(0, BigW))
	if b.Neg {
		return Ite(z, BVi(0, 64), BVi(-1, 64))
	}
	return Ite(z, BVi(0, 64), BVi(1, 64))
}

func cmpMag(p, q *Term) *Term {
	return Ite(Ult(p, q), BVi(-1, 64), Ite(Eq(p, q), BVi(0, 64), BVi(1, 64)))
}

func bigCmp(x *Exec, fn *ssa.Function, a []Value) Value {
	p, q := x.bigLoad(a[0]), x.bigLoad(a[1])
	switch {
	case !p.Neg && !q.Neg:
		return cmpMag(p.Mag, q.Mag)
	case p.Neg && q.Neg:
		return cmpMag(q.Mag, p.Mag)
	case p.Neg:
		return BVi(-1, 64) // neg (non-zero by normalisation) < non-neg
	default:
		return BVi(1, 64)
	}
}

func bigCmpAbs(x *Exec, fn *ssa.Function, a []Value) Value {
	p, q := x.bigLoad(a[0]), x.bigLoad(a[1])
	return cmpMag(p.Mag, q.Mag)
}

func bigBitLen(x *Exec, fn *ssa.Function, a []Value) Value {
	b := x.bigLoad(a[0])
	r := BVi(0, 64)
	for k := 1; k <= b.Mag.ub; k++ {
		lim := new(big.Int).Lsh(big.NewInt(1), uint(k-1))
		r = Ite(Ule(BV(lim, BigW), b.Mag), BVi(int64(k), 64), r)
	}
	return r
}

func bigBit(x *Exec, fn *ssa.Function, a []Value) Value {
	b := x.bigLoad(a[0])
	if b.Neg {
		panic(unsupported("big.Int.Bit on negative value"))
	}
	i := asTerm(a[1])
	x.obligation(Not(Slt(i, BVi(0, 64))), "big: negative bit index")
	sh := LShr(b.Mag, ZExt(i, BigW))
	bit := Ite(Ult(i, BVi(BigW, 64)), Extract(0, 0, sh), BVi(0, 1))
	return ZExt(bit, 64)
}

func (x *Exec) noOverflow(c *Term, what string) {
	// c = "overflow happens"; must be infeasible, else the width bound is exceeded
	if c.IsFalse() {
		return
	}
	if c.IsTrue() || x.feasible(c) != "unsat" {
		panic(pathEnd{"bound", fmt.Sprintf("big.Int exceeds %d bits in %s", BigW, what)})
	}
}

func bigArith(op string) intrinsicFn {
	return func(x *Exec, fn *ssa.Function, a []Value) Value {
		p, q := x.bigLoad(a[1]), x.bigLoad(a[2])
		var r BigV
		if p.Neg || q.Neg {
			// sign handling only where it is cheap
			switch op {
			case "mul":
				r.Neg = p.Neg != q.Neg
			case "quo", "rem":
				if fn.Name() == "Div" || fn.Name() == "Mod" {
					panic(unsupported("Euclidean big.Int division on negative operands"))
				}
				if op == "quo" {
					r.Neg = p.Neg != q.Neg
				} else {
					r.Neg = p.Neg
				}
			case "add":
				if p.Neg && q.Neg {
					r.Neg = true
				} else {
					// differing signs: a + (-b)
					pos, neg := p, q
					if p.Neg {
						pos, neg = q, p
					}
					if x.branch(Ult(pos.Mag, neg.Mag)) {
						x.bigStore(a[0], BigV{Neg: true, Mag: Sub(neg.Mag, pos.Mag)})
					} else {
						x.bigStore(a[0], BigV{Mag: Sub(pos.Mag, neg.Mag)})
					}
					return a[0]
				}
			case "sub":
				if p.Neg != q.Neg {
					// a - (-b) = a+b ; (-a) - b = -(a+b)
					s := Add(p.Mag, q.Mag)
					x.noOverflow(Ult(s, p.Mag), "Sub")
					x.bigStore(a[0], BigV{Neg: p.Neg, Mag: s})
					return a[0]
				}
				// (-a) - (-b) = b - a
				p, q = BigV{Mag: q.Mag}, BigV{Mag: p.Mag}
			default:
				panic(unsupported("big.Int bit operation on negative operands"))
			}
		}
		switch op {
		case "add":
			s := Add(p.Mag, q.Mag)
			if s.ub >= BigW && !(p.Mag.ub < BigW && q.Mag.ub < BigW) {
				x.noOverflow(Ult(s, p.Mag), "Add")
			}
			r.Mag = s
		case "sub":
			if x.branch(Ult(p.Mag, q.Mag)) {
				r = BigV{Neg: true, Mag: Sub(q.Mag, p.Mag)}
			} else {
				r = BigV{Mag: Sub(p.Mag, q.Mag)}
			}
		case "mul":
			if p.Mag.ub+q.Mag.ub > BigW {
				panic(pathEnd{"bound", fmt.Sprintf("big.Int product may exceed %d bits", BigW)})
			}
			r.Mag = Mul(p.Mag, q.Mag)
		case "quo":
			x.obligation(Ne(q.Mag, BVi(0, BigW)), "big: division by zero")
			r.Mag = UDiv(p.Mag, q.Mag)
		case "rem":
			x.obligation(Ne(q.Mag, BVi(0, BigW)), "big: division by zero")
			r.Mag = URem(p.Mag, q.Mag)
		case "and":
			r.Mag = BAnd(p.Mag, q.Mag)
		case "or":
			r.Mag = BOr(p.Mag, q.Mag)
		case "xor":
			r.Mag = BXor(p.Mag, q.Mag)
		case "andnot":
			r.Mag = BAnd(p.Mag, BNot(q.Mag))
		}
		x.bigStore(a[0], r)
		return a[0]
	}
}

func bigShift(left bool) intrinsicFn {
	return func(x *Exec, fn *ssa.Function, a []Value) Value {
		p := x.bigLoad(a[1])
		n := asTerm(a[2]) // uint
		if !left && p.Neg {
			panic(unsupported("big.Int.Rsh on negative value"))
		}
		var r *Term
		if left {
			if n.IsConst() {
				k := n.Uint64()
				if uint64(p.Mag.ub)+k > BigW {
					// ask the solver whether the high bits are really used
					if k >= BigW {
						x.noOverflow(Ne(p.Mag, BVi(0, BigW)), "Lsh")
					} else {
						x.noOverflow(Ne(Extract(BigW-1, BigW-int(k), p.Mag), BVi(0, int(k))), "Lsh")
					}
				}
				if k >= BigW {
					r = BVi(0, BigW)
				} else {
					r = Shl(p.Mag, BVi(int64(k), BigW))
				}
			} else {
				sh := ZExt(n, BigW)
				r = Shl(p.Mag, sh)
				// overflow iff shifting back does not restore, or count >= width
				x.noOverflow(Or(Not(Ult(n, BVi(BigW, 64))), Ne(LShr(r, sh), p.Mag)), "Lsh")
			}
		} else {
			sh := ZExt(n, BigW)
			r = Ite(Ult(n, BVi(BigW, 64)), LShr(p.Mag, sh), BVi(0, BigW))
		}
		x.bigStore(a[0], BigV{Neg: p.Neg, Mag: r})
		return a[0]
	}
}

func bigNeg(x *Exec, fn *ssa.Function, a []Value) Value {
	p := x.bigLoad(a[1])
	if !p.Mag.IsConst() {
		// zero stays non-negative
		if x.branch(Eq(p.Mag, BVi(0, BigW))) {
			x.bigStore(a[0], BigV{Mag: BVi(0, BigW)})
			return a[0]
		}
	}
	x.bigStore(a[0], BigV{Neg: !p.Neg, Mag: p.Mag})
	return a[0]
}

func bigAbs(x *Exec, fn *ssa.Function, a []Value) Value {
	p := x.bigLoad(a[1])
	x.bigStore(a[0], BigV{Mag: p.Mag})
	return a[0]
}

// ---------------------------------------------------------------- sha256

const HMsgW = 512
const HLenW = 16

var hashIfaceType = externType("crypto/sha256.digest")

func sha256New(x *Exec, fn *ssa.Function, a []Value) Value {
	o := x.newObj("sha256", nil, nil)
	o.Kind = OHash
	o.HKind = "sha256"
	return IfaceV{T: hashIfaceType, V: Ptr{Obj: o}}
}

func (x *Exec) chunkOf(sl SliceV) HChunk {
	if sl.Obj != nil && sl.Obj.Kind == OBigBytes && !sl.Obj.BLen.IsConst() && sl.Off.IsConst() && sl.Off.Val.Sign() == 0 && sl.Len == sl.Obj.BLen {
		return HChunk{BLen: sl.Obj.BLen, BMag: sl.Obj.BMag}
	}
	elems := x.sliceElems(sl, "hashed bytes")
	c := HChunk{}
	for _, e := range elems {
		c.Bytes = append(c.Bytes, asTerm(e))
	}
	return c
}

// digest returns the 32 digest byte terms of the concatenated chunks.
func (x *Exec) digest(chunks []HChunk) []*Term {
	var bytes []*Term
	var symLen, symMag *Term
	for _, c := range chunks {
		if c.BLen != nil {
			if symLen != nil || len(bytes) > 0 {
				panic(unsupported("hash of symbolic-length chunk combined with other data"))
			}
			symLen, symMag = c.BLen, c.BMag
			continue
		}
		if symLen != nil && len(c.Bytes) > 0 {
			panic(unsupported("hash of symbolic-length chunk combined with other data"))
		}
		bytes = append(bytes, c.Bytes...)
	}
	var d *Term
	if symLen == nil {
		conc := true
		for _, b := range bytes {
			if !b.IsConst() {
				conc = false
				break
			}
		}
		if conc {
			raw := make([]byte, len(bytes))
			for i, b := range bytes {
				raw[i] = byte(b.Uint64())
			}
			h := sha256.Sum256(raw)
			d = BV(new(big.Int).SetBytes(h[:]), 256)
		} else {
			if len(bytes)*8 > HMsgW {
				panic(pathEnd{"bound", "hashed message longer than 64 bytes"})
			}
			vals := make([]Value, len(bytes))
			for i, b := range bytes {
				vals[i] = b
			}
			ln := BVi(int64(len(bytes)), HLenW)
			msg := bytesToMag(vals, HMsgW)
			d = UF("H", 256, ln, msg)
			x.happs = append(x.happs, HApp{ln, msg, d})
		}
	} else {
		ln := Extract(HLenW-1, 0, symLen)
		msg := ZExt(symMag, HMsgW)
		d = UF("H", 256, ln, msg)
		x.happs = append(x.happs, HApp{ln, msg, d})
	}
	out := make([]*Term, 32)
	for i := 0; i < 32; i++ {
		lo := 8 * (31 - i)
		out[i] = Extract(lo+7, lo, d)
	}
	return out
}

func (x *Exec) hashMethod(o *Object, name string, args []Value) Value {
	// a digest object reachable from a global is shared state: its use is a read/write event
	x.access(o, nil, name != "Size" && name != "BlockSize")
	switch name {
	case "Write":
		sl := args[0].(SliceV)
		o.HBuf = append(o.HBuf, x.chunkOf(sl))
		return TupleV{sl.Len, IfaceV{}}
	case "Sum":
		pre := x.sliceElems(args[0].(SliceV), "Sum prefix")
		d := x.digest(o.HBuf)
		elems := make([]Value, 0, len(pre)+32)
		for _, e := range pre {
			elems = append(elems, e)
		}
		for _, b := range d {
			elems = append(elems, b)
		}
		ao := x.newObj("sha256.Sum", nil, &ArrV{Elems: elems})
		n := BVi(int64(len(elems)), 64)
		return SliceV{Obj: ao, Off: BVi(0, 64), Len: n, Cap: n}
	case "Reset":
		o.HBuf = nil
		return nil
	case "Size":
		return BVi(32, 64)
	case "BlockSize":
		return BVi(64, 64)
	}
	panic(unsupported("hash method " + name))
}

func sha256Sum256(x *Exec, fn *ssa.Function, a []Value) Value {
	d := x.digest([]HChunk{x.chunkOf(a[0].(SliceV))})
	arr := &ArrV{Elems: make([]Value, 32)}
	for i, b := range d {
		arr.Elems[i] = b
	}
	return arr
}

// ---------------------------------------------------------------- strings / strconv / fmt

func (x *Exec) stringSliceElems(v Value) []Value {
	return x.sliceElems(v.(SliceV), "[]string")
}

func stringsJoin(x *Exec, fn *ssa.Function, a []Value) Value {
	return x.strJoin(x.stringSliceElems(a[0]), a[1])
}

func (x *Exec) newStringSlice(parts []Value) Value {
	o := x.newObj("[]string", nil, &ArrV{Elems: parts})
	n := BVi(int64(len(parts)), 64)
	return SliceV{Obj: o, Off: BVi(0, 64), Len: n, Cap: n}
}

func stringsSplit(x *Exec, fn *ssa.Function, a []Value) Value {
	sep, ok := a[1].(string)
	if !ok {
		panic(unsupported("strings.Split with symbolic separator"))
	}
	return x.newStringSlice(x.strSplit(a[0], sep))
}

func stringsFields(x *Exec, fn *ssa.Function, a []Value) Value {
	return x.newStringSlice(x.strFields(a[0]))
}

func stringsContains(x *Exec, fn *ssa.Function, a []Value) Value {
	return x.strContains(a[0], a[1])
}

func stringsConcrete1(f func(string) string) intrinsicFn {
	return func(x *Exec, fn *ssa.Function, a []Value) Value {
		s, ok := a[0].(string)
		if !ok {
			panic(unsupported(fn.String() + " on symbolic text"))
		}
		return f(s)
	}
}

func stringsConcrete2b(f func(string, string) bool) intrinsicFn {
	return func(x *Exec, fn *ssa.Function, a []Value) Value {
		s, ok := a[0].(string)
		t, ok2 := a[1].(string)
		if !ok || !ok2 {
			panic(unsupported(fn.String() + " on symbolic text"))
		}
		return Bool(f(s, t))
	}
}

func stringsRepeat(x *Exec, fn *ssa.Function, a []Value) Value {
	s, ok := a[0].(string)
	n := asTerm(a[1])
	if !ok || !n.IsConst() {
		panic(unsupported("strings.Repeat on symbolic arguments"))
	}
	return strings.Repeat(s, int(n.Int64()))
}

func stringsReplaceAll(x *Exec, fn *ssa.Function, a []Value) Value {
	old, ok1 := a[1].(string)
	nw, ok2 := a[2].(string)
	if !ok1 || !ok2 {
		panic(unsupported("strings.ReplaceAll with symbolic pattern"))
	}
	if s, ok := a[0].(string); ok {
		return strings.ReplaceAll(s, old, nw)
	}
	// whitespace rune -> whitespace rune on a token sequence
	oa, na := atomsOfString(old), atomsOfString(nw)
	if len(oa) == 1 && oa[0].K == ASep && len(na) == 1 && na[0].K == ASep {
		as := toAtoms(a[0])
		if !simpleAtoms(as) {
			panic(unsupported("strings.ReplaceAll on opaque text"))
		}
		out := make([]Atom, len(as))
		for i, at := range as {
			if at.K == ASep && at.S == old {
				at = Atom{K: ASep, S: nw}
			}
			out[i] = at
		}
		return x.mkStr(out)
	}
	panic(unsupported("strings.ReplaceAll on symbolic text"))
}

func strconvFormatInt(x *Exec, fn *ssa.Function, a []Value) Value {
	base := asTerm(a[1])
	if !base.IsConst() {
		panic(unsupported("strconv.FormatInt with symbolic base"))
	}
	v := asTerm(a[0])
	if v.IsConst() {
		return strconv.FormatInt(v.Int64(), int(base.Int64()))
	}
	if base.Int64() != 10 {
		panic(unsupported("strconv.FormatInt of symbolic value in base != 10"))
	}
	return x.mkStr([]Atom{{K: AItoa, T: v}})
}

func strconvItoa(x *Exec, fn *ssa.Function, a []Value) Value {
	v := asTerm(a[0])
	if v.IsConst() {
		return strconv.Itoa(int(v.Int64()))
	}
	return x.mkStr([]Atom{{K: AItoa, T: v}})
}

// renderArg renders a value for %v/%s/%d.
func (x *Exec) renderArg(v Value, verb byte) []Atom {
	if iv, ok := v.(IfaceV); ok {
		if iv.T == nil {
			return atomsOfString("<nil>")
		}
		// error / Stringer
		if verb != 'd' {
			if m := x.findMethod(iv, "Error"); m != nil {
				return toAtoms(m())
			}
			if m := x.findMethod(iv, "String"); m != nil {
				return toAtoms(m())
			}
		}
		return x.renderTyped(iv.V, iv.T, verb)
	}
	return x.renderTyped(v, nil, verb)
}

func (x *Exec) renderTyped(v Value, t types.Type, verb byte) []Atom {
	switch a := v.(type) {
	case string, *SymStr:
		if verb == 'q' {
			s, ok := a.(string)
			if !ok {
				panic(unsupported("%q of symbolic string"))
			}
			return atomsOfString(strconv.Quote(s))
		}
		return toAtoms(a)
	case *Term:
		if a.W == 0 {
			if a.IsConst() {
				return atomsOfString(strconv.FormatBool(a.IsTrue()))
			}
			panic(unsupported("formatting symbolic bool"))
		}
		signed := true
		if t != nil {
			_, signed, _ = intWidth(t)
		}
		if a.IsConst() {
			if signed {
				return atomsOfString(strconv.FormatInt(a.Int64(), 10))
			}
			return atomsOfString(strconv.FormatUint(a.Uint64(), 10))
		}
		if !signed && a.W == 64 {
			panic(unsupported("formatting symbolic uint64"))
		}
		return []Atom{{K: AItoa, T: Resize(a, 64, signed)}}
	}
	panic(unsupported(fmt.Sprintf("formatting value of %T", v)))
}

func (x *Exec) findMethod(iv IfaceV, name string) func() Value {
	if p, ok := iv.V.(Ptr); ok && p.Obj != nil {
		switch p.Obj.Kind {
		case OErr:
			if name == "Error" {
				return func() Value { return p.Obj.Str }
			}
			return nil
		case OExtern:
			if name == "Error" {
				return func() Value { return x.mkStr([]Atom{{K: AOpq, S: "errtext:" + p.Obj.Name}}) }
			}
			return nil
		case OHash:
			return nil
		}
	}
	ms := x.P.Prog.MethodSets.MethodSet(iv.T)
	for i := 0; i < ms.Len(); i++ {
		sel := ms.At(i)
		if sel.Obj().Name() == name {
			sig := sel.Type().(*types.Signature)
			if sig.Params().Len() != 0 || sig.Results().Len() != 1 || !isStringType(sig.Results().At(0).Type()) {
				return nil
			}
			fn := x.P.Prog.MethodValue(sel)
			if fn == nil {
				return nil
			}
			return func() Value { return x.call(fn, []Value{iv.V}) }
		}
	}
	return nil
}

// format implements the subset of fmt verbs that occur: %s %d %v %q %w %%.
func (x *Exec) format(f string, args []Value) (Value, Value) {
	var as []Atom
	var wrapped Value
	ai := 0
	i := 0
	for i < len(f) {
		j := strings.IndexByte(f[i:], '%')
		if j < 0 {
			as = append(as, atomsOfString(f[i:])...)
			break
		}
		as = append(as, atomsOfString(f[i:i+j])...)
		i += j + 1
		if i >= len(f) {
			as = append(as, atomsOfString("%!(NOVERB)")...)
			break
		}
		verb := f[i]
		i++
		if verb == '%' {
			as = append(as, Atom{K: ALit, S: "%"})
			continue
		}
		switch verb {
		case 's', 'd', 'v', 'q', 'w':
		default:
			panic(unsupported("format verb %" + string(verb)))
		}
		if ai >= len(args) {
			as = append(as, atomsOfString("%!"+string(verb)+"(MISSING)")...)
			continue
		}
		arg := args[ai]
		ai++
		if verb == 'w' {
			wrapped = arg
			verb = 'v'
		}
		// verb/type mismatches produce %!d(string=...) etc. in real fmt: model the common ones
		if iv, ok := arg.(IfaceV); ok && iv.T != nil {
			if verb == 'd' && isStringType(iv.T) {
				as = append(as, atomsOfString("%!d(string=")...)
				as = append(as, toAtoms(iv.V)...)
				as = append(as, Atom{K: ALit, S: ")"})
				continue
			}
			if verb == 's' {
				if _, _, isInt := intWidth(iv.T); isInt && x.findMethod(iv, "String") == nil && x.findMethod(iv, "Error") == nil {
					as = append(as, atomsOfString("%!s("+iv.T.String()+"=")...)
					as = append(as, x.renderArg(arg, 'd')...)
					as = append(as, Atom{K: ALit, S: ")"})
					continue
				}
			}
		}
		as = append(as, x.renderArg(arg, verb)...)
	}
	if ai < len(args) {
		panic(unsupported("fmt: extra arguments"))
	}
	// adjacent literal merge happens in mkStr
	return x.mkStr(as), wrapped
}

func (x *Exec) variadic(v Value) []Value {
	sl := v.(SliceV)
	if sl.Obj == nil {
		return nil
	}
	return x.sliceElems(sl, "variadic arguments")
}

var fmtErrType = externType("fmt.wrapError")

func fmtErrorf(x *Exec, fn *ssa.Function, a []Value) Value {
	f, ok := a[0].(string)
	if !ok {
		panic(unsupported("fmt.Errorf with symbolic format"))
	}
	msg, wrapped := x.format(f, x.variadic(a[1]))
	o := x.newObj("fmt.Errorf", nil, nil)
	o.Kind = OErr
	o.Str = msg
	o.Wrapped = wrapped
	return IfaceV{T: fmtErrType, V: Ptr{Obj: o}}
}

func fmtSprintf(x *Exec, fn *ssa.Function, a []Value) Value {
	f, ok := a[0].(string)
	if !ok {
		panic(unsupported("fmt.Sprintf with symbolic format"))
	}
	msg, _ := x.format(f, x.variadic(a[1]))
	return msg
}

func fmtSprint(x *Exec, fn *ssa.Function, a []Value) Value {
	var as []Atom
	for _, v := range x.variadic(a[0]) {
		as = append(as, x.renderArg(v, 'v')...)
	}
	return x.mkStr(as)
}

func (x *Exec) errMethod(o *Object, name string, args []Value) Value {
	switch name {
	case "Error":
		return o.Str
	case "Unwrap":
		if o.Wrapped == nil {
			return IfaceV{}
		}
		return o.Wrapped
	}
	panic(unsupported("error method " + name))
}

func (x *Exec) unwrapErr(e IfaceV) (IfaceV, bool) {
	if e.T == nil {
		return IfaceV{}, false
	}
	if p, ok := e.V.(Ptr); ok && p.Obj != nil {
		switch p.Obj.Kind {
		case OErr:
			if w, ok := p.Obj.Wrapped.(IfaceV); ok {
				return w, true
			}
			return IfaceV{}, false
		case OExtern:
			return IfaceV{}, false
		}
	}
	ms := x.P.Prog.MethodSets.MethodSet(e.T)
	for i := 0; i < ms.Len(); i++ {
		if ms.At(i).Obj().Name() == "Unwrap" {
			sig := ms.At(i).Type().(*types.Signature)
			if sig.Params().Len() == 0 && sig.Results().Len() == 1 {
				if _, isIface := sig.Results().At(0).Type().Underlying().(*types.Interface); isIface {
					r := x.call(x.P.Prog.MethodValue(ms.At(i)), []Value{e.V})
					if w, ok := r.(IfaceV); ok {
						return w, true
					}
				}
			}
			panic(unsupported("Unwrap method of unusual shape on " + e.T.String()))
		}
		if ms.At(i).Obj().Name() == "Is" {
			panic(unsupported("custom Is method on " + e.T.String()))
		}
	}
	return IfaceV{}, false
}

func errorsIs(x *Exec, fn *ssa.Function, a []Value) Value {
	err, target := a[0].(IfaceV), a[1].(IfaceV)
	if err.T == nil || target.T == nil {
		return Bool(err.T == nil && target.T == nil)
	}
	ors := []*Term{}
	cur := err
	for n := 0; n < 32 && cur.T != nil; n++ {
		ors = append(ors, x.valEq(cur, target))
		nx, ok := x.unwrapErr(cur)
		if !ok {
			break
		}
		cur = nx
	}
	return Or(ors...)
}

// errorsAs: the first error of the chain whose dynamic type is assignable to *target is stored there.
func errorsAs(x *Exec, fn *ssa.Function, a []Value) Value {
	err, tv := a[0].(IfaceV), a[1].(IfaceV)
	if tv.T == nil {
		x.obligation(tFalse, "errors.As: target cannot be nil")
	}
	pt, ok := tv.T.Underlying().(*types.Pointer)
	tp, isPtr := tv.V.(Ptr)
	if !ok || !isPtr || tp.Obj == nil {
		x.obligation(tFalse, "errors.As: target must be a non-nil pointer")
	}
	elem := pt.Elem()
	iface, isIface := elem.Underlying().(*types.Interface)
	cur := err
	for n := 0; n < 32 && cur.T != nil; n++ {
		if ms := x.P.Prog.MethodSets.MethodSet(cur.T); ms != nil {
			for i := 0; i < ms.Len(); i++ {
				if ms.At(i).Obj().Name() == "As" {
					panic(unsupported("custom As method on " + cur.T.String()))
				}
			}
		}
		if isIface && types.Implements(cur.T, iface) {
			x.store(tp, IfaceV{T: cur.T, V: cur.V})
			return tTrue
		}
		if !isIface && types.Identical(cur.T, elem) {
			x.store(tp, cur.V)
			return tTrue
		}
		nx, ok := x.unwrapErr(cur)
		if !ok {
			break
		}
		cur = nx
	}
	return tFalse
}

func errorsUnwrap(x *Exec, fn *ssa.Function, a []Value) Value {
	w, _ := x.unwrapErr(a[0].(IfaceV))
	return w
}

// ---------------------------------------------------------------- sync

func onceDo(x *Exec, fn *ssa.Function, a []Value) Value {
	p := a[0].(Ptr)
	if p.Obj == nil {
		x.obligation(tFalse, "nil *sync.Once")
	}
	get := func() OnceV {
		ov, ok := x.loadPath(p.Obj.Val, p.Path).(OnceV)
		if !ok {
			panic(unsupported("sync.Once with unexpected representation"))
		}
		return ov
	}
	put := func(ov OnceV) { p.Obj.Val = x.storePath(p.Obj.Val, p.Path, ov) }
	x.yieldPoint()
	ov := get()
	x.syncEvent("once-enter", ov.ID, p.Obj)
	if ov.Running && x.sched != nil {
		// another goroutine is inside f: Do blocks until it has returned
		x.sched.blockUntil(x, func() bool { return !get().Running })
		ov = get()
	}
	if x.branch(ov.Done) {
		x.syncEvent("once-skip", ov.ID, p.Obj)
		return nil
	}
	x.syncEvent("once-begin", ov.ID, p.Obj)
	ov.Running = true
	put(ov)
	x.callValue(a[1], nil)
	ov = get()
	ov.Running = false
	ov.Done = tTrue
	put(ov)
	if p.Obj.Global && !x.inInit {
		x.writes[p.Obj.Name+pathKey(p.Path)] = true
	}
	x.syncEvent("once-end", ov.ID, p.Obj)
	return nil
}

func (x *Exec) syncEvent(kind string, id int, o *Object) {
	if x.logEvents {
		x.events = append(x.events, AccessEvent{Obj: o, Sync: kind, SyncID: id, Thread: x.thread})
	}
}

func syncNop(kind string) intrinsicFn {
	return func(x *Exec, fn *ssa.Function, a []Value) Value {
		p := a[0].(Ptr)
		if p.Obj == nil {
			x.obligation(tFalse, "nil mutex")
		}
		key := fmt.Sprintf("mutex:%d%s", p.Obj.ID, pathKey(p.Path))
		st, ok := x.mutexes[key]
		if !ok {
			st = &mutexState{holder: -1}
			if x.mutexes == nil {
				x.mutexes = map[string]*mutexState{}
			}
			x.mutexes[key] = st
		}
		x.yieldPoint()
		switch kind {
		case "lock":
			if x.sched != nil {
				x.sched.blockUntil(x, func() bool { return st.holder < 0 && st.readers == 0 })
			} else if st.holder >= 0 {
				x.obligation(tFalse, "deadlock: sync.Mutex locked twice by the same goroutine")
			}
			st.holder = x.thread
		case "unlock":
			st.holder = -1
		case "rlock":
			if x.sched != nil {
				x.sched.blockUntil(x, func() bool { return st.holder < 0 })
			}
			st.readers++
		case "runlock":
			st.readers--
		}
		x.syncEvent(kind, p.Obj.ID*1000+len(p.Path), p.Obj)
		return nil
	}
}

type mutexState struct {
	holder  int
	readers int
}

// ---------------------------------------------------------------- norm / pbkdf2 / bytes

func normString(x *Exec, fn *ssa.Function, a []Value) Value {
	f := asTerm(a[0])
	if !f.IsConst() {
		panic(unsupported("norm.Form with symbolic form"))
	}
	form := norm.Form(f.Int64())
	if s, ok := a[1].(string); ok {
		return form.String(s)
	}
	if form == norm.NFKD {
		return x.strNFKD(a[1])
	}
	panic(unsupported(fmt.Sprintf("normal form %d of symbolic text", form)))
}

func normBytes(x *Exec, fn *ssa.Function, a []Value) Value {
	s := x.bytesToString(a[1].(SliceV))
	r := normString(x, fn, []Value{a[0], s})
	return x.stringToBytes(r)
}

func (x *Exec) bytesDesc(sl SliceV) Value {
	if sl.Obj == nil {
		return ""
	}
	switch sl.Obj.Kind {
	case OStrBytes:
		return sl.Obj.Str
	case OOpaque:
		return sl.Obj.Opq
	}
	elems := x.sliceElems(sl, "bytes passed to opaque function")
	bs := make([]byte, len(elems))
	for i, e := range elems {
		t := asTerm(e)
		if !t.IsConst() {
			panic(unsupported("symbolic bytes passed to opaque function"))
		}
		bs[i] = byte(t.Uint64())
	}
	return string(bs)
}

func pbkdf2Key(x *Exec, fn *ssa.Function, a []Value) Value {
	pw := x.bytesDesc(a[0].(SliceV))
	salt := x.bytesDesc(a[1].(SliceV))
	iter, klen := asTerm(a[2]), asTerm(a[3])
	hname := "?"
	switch h := a[4].(type) {
	case *ssa.Function:
		hname = h.String()
	case *ClosureV:
		hname = "closure:" + h.Fn.String()
	}
	x.obligation(Not(Slt(klen, BVi(0, 64))), "pbkdf2: negative key length")
	ps, ok1 := pw.(string)
	ss, ok2 := salt.(string)
	if ok1 && ok2 && iter.IsConst() && klen.IsConst() && hname == "crypto/sha512.New" && iter.Int64() > 0 && iter.Int64() <= 4096 && klen.Int64() <= 1024 {
		key := pbkdf2.Key([]byte(ps), []byte(ss), int(iter.Int64()), int(klen.Int64()), sha512.New)
		arr := &ArrV{Elems: make([]Value, len(key))}
		for i, b := range key {
			arr.Elems[i] = BVi(int64(b), 8)
		}
		o := x.newObj("pbkdf2.Key", nil, arr)
		n := BVi(int64(len(key)), 64)
		return SliceV{Obj: o, Off: BVi(0, 64), Len: n, Cap: n}
	}
	if klen.IsConst() && klen.Int64() <= 128 && iter.IsConst() {
		// the result is an unknown but fixed function of the arguments: one bit-vector variable per
		// distinct argument tuple (named by a hash of the rendered arguments), cut into bytes. The
		// slice is an ordinary fresh array, so callers may modify it and aliasing is visible.
		render := func(v Value) string {
			if sv, ok := v.(string); ok {
				return strconv.Quote(sv)
			}
			return renderAtoms(toAtoms(v))
		}
		h := sha256sum([]byte(render(pw) + "|" + render(salt) + "|" + iter.Val.String() + "|" + klen.Val.String() + "|" + hname))
		n := int(klen.Int64())
		kv := Var(fmt.Sprintf("K_%x", h[:10]), 8*n)
		arr := &ArrV{Elems: make([]Value, n)}
		for i := 0; i < n; i++ {
			lo := 8 * (n - 1 - i)
			arr.Elems[i] = Extract(lo+7, lo, kv)
		}
		o := x.newObj("pbkdf2.Key", nil, arr)
		return SliceV{Obj: o, Off: BVi(0, 64), Len: klen, Cap: klen}
	}
	o := x.newObj("pbkdf2.Key", nil, nil)
	o.Kind = OOpaque
	o.Opq = &OpqExpr{Fn: "pbkdf2", Args: []Value{pw, salt, iter, klen, hname}}
	return SliceV{Obj: o, Off: BVi(0, 64), Len: klen, Cap: klen}
}

// opqEq: sufficient condition for equality of opaque expressions (congruence).
func (x *Exec) opqEq(a, b Value) *Term {
	switch p := a.(type) {
	case *OpqExpr:
		q, ok := b.(*OpqExpr)
		if !ok || p.Fn != q.Fn || len(p.Args) != len(q.Args) {
			return tFalse
		}
		conj := []*Term{}
		for i := range p.Args {
			conj = append(conj, x.opqEq(p.Args[i], q.Args[i]))
		}
		return And(conj...)
	case *Term:
		q, ok := b.(*Term)
		if !ok {
			return tFalse
		}
		return Eq(p, q)
	case string:
		switch q := b.(type) {
		case string:
			return Bool(p == q)
		case *SymStr:
			return x.strEqStrict(p, q)
		}
		return tFalse
	case *SymStr:
		switch b.(type) {
		case string, *SymStr:
			return x.strEqStrict(p, b)
		}
		return tFalse
	}
	return tFalse
}

// strEqStrict: like strEq but opaque parts compare by identity (never a fresh unknown).
func (x *Exec) strEqStrict(a, b Value) *Term {
	aa, ba := toAtoms(a), toAtoms(b)
	if atomsIdentical(aa, ba) {
		return tTrue
	}
	if simpleAtoms(aa) && simpleAtoms(ba) {
		return x.strEq(a, b)
	}
	// align atom by atom; opaque atoms must be identical
	if len(aa) != len(ba) {
		return tFalse
	}
	conj := []*Term{}
	for i := range aa {
		p, q := aa[i], ba[i]
		if p.K != q.K {
			return tFalse
		}
		switch p.K {
		case ALit, ASep, AOpq:
			if p.S != q.S {
				return tFalse
			}
		case ATok, AItoa:
			conj = append(conj, Eq(p.T, q.T))
		case ANorm, APre:
			if !atomsIdentical(p.Sub, q.Sub) {
				return tFalse
			}
		}
	}
	return And(conj...)
}

func (x *Exec) bytesEq(a, b SliceV) *Term {
	if a.Obj != nil && b.Obj != nil && (a.Obj.Kind == OOpaque || b.Obj.Kind == OOpaque || a.Obj.Kind == OStrBytes || b.Obj.Kind == OStrBytes) {
		return And(Eq(a.Len, b.Len), x.opqEq(x.bytesDesc(a), x.bytesDesc(b)))
	}
	ea := x.sliceElems(a, "bytes.Equal operand")
	eb := x.sliceElems(b, "bytes.Equal operand")
	if len(ea) != len(eb) {
		return tFalse
	}
	conj := []*Term{}
	for i := range ea {
		conj = append(conj, Eq(asTerm(ea[i]), asTerm(eb[i])))
	}
	return And(conj...)
}

func bytesEqualI(x *Exec, fn *ssa.Function, a []Value) Value {
	return x.bytesEq(a[0].(SliceV), a[1].(SliceV))
}

// ---------------------------------------------------------------- extern objects (crypto/rand.Reader, io.EOF ...)

func (x *Exec) externMethod(o *Object, name string, args []Value) Value {
	switch {
	case o.Name == "extern:crypto/rand.Reader" && name == "Read":
		return x.randFill(args[0].(SliceV))
	case strings.HasPrefix(o.Name, "extern:file:") && name == "Read":
		return x.fileFill(o, args[0].(SliceV))
	case strings.HasPrefix(o.Name, "extern:file:") && name == "Close":
		return IfaceV{}
	case name == "Error":
		return x.mkStr([]Atom{{K: AOpq, S: "errtext:" + o.Name}})
	}
	panic(unsupported("method " + name + " on opaque object " + o.Name))
}

// randFill: the OS CSPRNG fills the whole buffer and reports no error; the bytes are fresh symbols rand_<k>.
func (x *Exec) randFill(sl SliceV) Value {
	n := int(x.concretize(sl.Len, "length of buffer read from crypto/rand.Reader").Int64())
	for i := 0; i < n; i++ {
		b := Var(fmt.Sprintf("rand_%d", x.readerCalls), 8)
		x.readerCalls++
		x.store(Ptr{Obj: sl.Obj, Path: []Sel{{Idx: Add(sl.Off, BVi(int64(i), 64))}}}, b)
	}
	x.callLog = append(x.callLog, fmt.Sprintf("crypto/rand.Reader.Read(%d)", n))
	return TupleV{BVi(int64(n), 64), IfaceV{}}
}

func randRead(x *Exec, fn *ssa.Function, a []Value) Value {
	return x.randFill(a[0].(SliceV))
}

// ---------------------------------------------------------------- sync.Pool

// A Pool is modelled as the multiset of values Put so far; Get nondeterministically hands back
// the most recently Put value or a new one (both are behaviours the real Pool can show).
func (x *Exec) poolItems(p Ptr) *Object {
	key := fmt.Sprintf("pool:%d%s", p.Obj.ID, pathKey(p.Path))
	if o, ok := x.externs[key]; ok {
		return o
	}
	o := x.newObj(key, nil, &ArrV{})
	o.Global = p.Obj.Global
	x.externs[key] = o
	return o
}

func poolGet(x *Exec, fn *ssa.Function, a []Value) Value {
	p := a[0].(Ptr)
	items := x.poolItems(p)
	arr := items.Val.(*ArrV)
	x.syncEvent("pool-get", p.Obj.ID, p.Obj)
	if n := len(arr.Elems); n > 0 {
		x.usedNondet = true
		if x.branch(x.fresh("pool_reuse", 0)) {
			v := arr.Elems[n-1]
			arr.Elems = arr.Elems[:n-1]
			return v
		}
	}
	// New field (last exported field of sync.Pool)
	pv := x.loadPath(p.Obj.Val, p.Path).(*StructV)
	st := pv.T.Underlying().(*types.Struct)
	for i := 0; i < st.NumFields(); i++ {
		if st.Field(i).Name() == "New" {
			if f := pv.Fields[i]; f != nil {
				return x.callValue(f, nil)
			}
		}
	}
	return IfaceV{}
}

func poolPut(x *Exec, fn *ssa.Function, a []Value) Value {
	p := a[0].(Ptr)
	items := x.poolItems(p)
	arr := items.Val.(*ArrV)
	x.syncEvent("pool-put", p.Obj.ID, p.Obj)
	if iv, ok := a[1].(IfaceV); ok && iv.T == nil {
		return nil
	}
	arr.Elems = append(arr.Elems, a[1])
	if p.Obj.Global {
		x.markShared(a[1])
		if !x.inInit {
			x.writes[p.Obj.Name+pathKey(p.Path)+"(pool)"] = true
		}
	}
	return nil
}

// ---------------------------------------------------------------- sort.SearchStrings (table lifting)

func sortSearchStrings(x *Exec, fn *ssa.Function, a []Value) Value {
	elems := x.stringSliceElems(a[0])
	list := make([]string, len(elems))
	for i, e := range elems {
		s, ok := e.(string)
		if !ok {
			panic(unsupported("sort.SearchStrings over symbolic list"))
		}
		list[i] = s
	}
	search := func(s string) int { return sort.SearchStrings(list, s) }
	if s, ok := a[1].(string); ok {
		return BVi(int64(search(s)), 64)
	}
	as := toAtoms(a[1])
	if !simpleAtoms(as) {
		panic(unsupported("sort.SearchStrings with opaque needle"))
	}
	if len(as) == 1 && as[0].K == ATok && as[0].Tab != nil {
		keys := make([]int, len(as[0].Tab))
		vals := make([]int, len(as[0].Tab))
		for i, id := range as[0].Tab {
			str, _ := x.in.Str(id)
			keys[i] = i
			vals[i] = search(str)
		}
		v, _ := pwApply(keys, vals, as[0].Idx, 64, BVi(0, 64))
		return v
	}
	id, ok := x.tokenID(as)
	if !ok {
		panic(unsupported("sort.SearchStrings with composite needle"))
	}
	n := len(x.in.strs)
	keys := make([]int, n)
	vals := make([]int, n)
	for i := 0; i < n; i++ {
		keys[i] = i
		vals[i] = search(x.in.strs[i])
	}
	// a token that is no interned string: any insertion point is possible
	any := x.fresh("searchpos", 64)
	x.addPC(Ule(any, BVi(int64(len(list)), 64)))
	v, _ := pwApply(keys, vals, id, 64, any)
	return v
}

// ---------------------------------------------------------------- sync/atomic (sequentially consistent cells)

func atomicKey(fn *ssa.Function) (kind string, ok bool) {
	s := fn.String()
	if !strings.Contains(s, "sync/atomic.") {
		return "", false
	}
	name := fn.Name()
	switch {
	case strings.HasPrefix(name, "Load"):
		return "load", true
	case strings.HasPrefix(name, "Store"):
		return "store", true
	case strings.HasPrefix(name, "Add"):
		return "add", true
	case strings.HasPrefix(name, "Swap"):
		return "swap", true
	case strings.HasPrefix(name, "CompareAndSwap"):
		return "cas", true
	}
	return "", false
}

// atomicCell: the memory cell an atomic operation works on. For the typed wrappers
// (atomic.Int64, atomic.Value, atomic.Pointer[T], atomic.Bool …) it is the value field of the receiver.
func (x *Exec) atomicCell(fn *ssa.Function, recv Ptr) Ptr {
	if fn.Signature.Recv() == nil {
		return recv
	}
	t := fn.Signature.Recv().Type()
	if p, ok := t.(*types.Pointer); ok {
		t = p.Elem()
	}
	st, ok := t.Underlying().(*types.Struct)
	if !ok {
		return recv
	}
	for i := 0; i < st.NumFields(); i++ {
		if st.Field(i).Name() == "v" {
			return Ptr{Obj: recv.Obj, Path: append(append([]Sel{}, recv.Path...), Sel{Field: i})}
		}
	}
	panic(unsupported("atomic wrapper without value field: " + t.String()))
}

func (x *Exec) atomicOp(fn *ssa.Function, kind string, a []Value) Value {
	recv := a[0].(Ptr)
	if recv.Obj == nil {
		x.obligation(tFalse, "nil pointer in atomic operation")
	}
	cell := x.atomicCell(fn, recv)
	loc := cell.Obj.Name + pathKey(cell.Path)
	ev := func(k string) {
		if x.logEvents {
			x.events = append(x.events, AccessEvent{Obj: cell.Obj, Path: pathKey(cell.Path), Sync: k, SyncID: cell.Obj.ID, Thread: x.thread})
		}
		_ = loc
	}
	x.yieldPoint()
	rawLoad := func() Value { return copyVal(x.loadPath(cell.Obj.Val, cell.Path)) }
	rawStore := func(v Value) {
		cell.Obj.Val = x.storePath(cell.Obj.Val, cell.Path, copyVal(v))
		if cell.Obj.Global {
			x.markShared(v)
			if !x.inInit {
				x.writes[loc] = true
			}
		}
	}
	// atomic.Bool stores a uint32, atomic.Value stores an interface: convert at the boundary
	cur := rawLoad()
	toCell := func(v Value) Value {
		if ct, ok := cur.(*Term); ok {
			if vt, ok := v.(*Term); ok && vt.W != ct.W {
				if vt.W == 0 {
					return Ite(vt, BVi(1, ct.W), BVi(0, ct.W))
				}
			}
		}
		return v
	}
	fromCell := func(v Value) Value {
		res := fn.Signature.Results()
		if res.Len() == 1 && isBoolType(res.At(0).Type()) {
			if vt, ok := v.(*Term); ok && vt.W != 0 {
				return Ne(vt, BVi(0, vt.W))
			}
		}
		return v
	}
	switch kind {
	case "load":
		ev("atomic-load")
		return fromCell(cur)
	case "store":
		ev("atomic-store")
		rawStore(toCell(a[1]))
		return nil
	case "swap":
		ev("atomic-store")
		rawStore(toCell(a[1]))
		return fromCell(cur)
	case "add":
		ev("atomic-store")
		nv := Add(asTerm(cur), asTerm(a[1]))
		rawStore(nv)
		return nv
	case "cas":
		ev("atomic-store")
		eq := x.valEq(cur, toCell(a[1]))
		if x.branch(eq) {
			rawStore(toCell(a[2]))
			return tTrue
		}
		return tFalse
	}
	panic(unsupported("atomic operation " + fn.String()))
}

// yieldPoint is a scheduling point of the (optional) interleaving explorer.
func (x *Exec) yieldPoint() {
	if x.sched != nil {
		x.sched.yield(x)
	}
}

// ---------------------------------------------------------------- process environment (configuration is an input)

func (x *Exec) envString(name string) Value {
	key := "env:" + name
	found := false
	for _, in := range x.inputs {
		if in.Name == key {
			found = true
		}
	}
	if !found {
		x.inputs = append(x.inputs, Input{Name: key, Kind: "env", Terms: []*Term{x.opqEmptyVar(key)}})
	}
	return &SymStr{A: []Atom{{K: AOpq, S: key}}}
}

// opqEmptyVar: the free Boolean "this opaque text is empty".
func (x *Exec) opqEmptyVar(name string) *Term {
	h := sha256sum([]byte(name))
	return Var(fmt.Sprintf("empty_%x", h[:6]), 0)
}

func osGetenv(x *Exec, fn *ssa.Function, a []Value) Value {
	name, ok := a[0].(string)
	if !ok {
		panic(unsupported("os.Getenv with symbolic name"))
	}
	v := x.envString(name)
	if fn.Name() == "LookupEnv" {
		return TupleV{v, x.fresh("envset", 0)}
	}
	return v
}

var osFileType types.Type

func (x *Exec) osFileT() types.Type {
	if osFileType != nil {
		return osFileType
	}
	for _, p := range x.P.Prog.AllPackages() {
		if p.Pkg.Path() == "os" {
			if o := p.Pkg.Scope().Lookup("File"); o != nil {
				osFileType = types.NewPointer(o.Type())
			}
		}
	}
	return osFileType
}

func osOpen(x *Exec, fn *ssa.Function, a []Value) Value {
	// the file system is environment: opening may succeed or fail
	if x.branch(x.fresh("open_ok", 0)) {
		x.fileN++
		o := x.externObj(fmt.Sprintf("file:%d", x.fileN))
		return TupleV{Ptr{Obj: o}, IfaceV{}}
	}
	return TupleV{Ptr{}, IfaceV{T: externType("os.PathError"), V: Ptr{Obj: x.externObj("os.PathError")}}}
}

func osReadFile(x *Exec, fn *ssa.Function, a []Value) Value {
	if x.branch(x.fresh("readfile_ok", 0)) {
		x.fileN++
		n := 64
		arr := &ArrV{Elems: make([]Value, n)}
		for i := range arr.Elems {
			arr.Elems[i] = Var(fmt.Sprintf("file%d_%d", x.fileN, i), 8)
		}
		o := x.newObj("os.ReadFile", nil, arr)
		return TupleV{SliceV{Obj: o, Off: BVi(0, 64), Len: BVi(int64(n), 64), Cap: BVi(int64(n), 64)}, IfaceV{}}
	}
	return TupleV{SliceV{Off: BVi(0, 64), Len: BVi(0, 64), Cap: BVi(0, 64)}, IfaceV{T: externType("os.PathError"), V: Ptr{Obj: x.externObj("os.PathError")}}}
}

func init() {
	intrinsicTab["os.Getenv"] = osGetenv
	intrinsicTab["os.LookupEnv"] = osGetenv
	intrinsicTab["os.Open"] = osOpen
	intrinsicTab["os.OpenFile"] = osOpen
	intrinsicTab["os.ReadFile"] = osReadFile
	intrinsicTab["(*os.File).Close"] = func(x *Exec, fn *ssa.Function, a []Value) Value { return IfaceV{} }
	intrinsicTab["(*os.File).Read"] = func(x *Exec, fn *ssa.Function, a []Value) Value {
		p := a[0].(Ptr)
		if p.Obj == nil {
			return TupleV{BVi(0, 64), IfaceV{T: externType("os.ErrInvalid"), V: Ptr{Obj: x.externObj("os.ErrInvalid")}}}
		}
		return x.fileFill(p.Obj, a[1].(SliceV))
	}
}

// fileFill: a file delivers arbitrary bytes (full read).
func (x *Exec) fileFill(o *Object, sl SliceV) Value {
	n := int(x.concretize(sl.Len, "length of buffer read from file").Int64())
	for i := 0; i < n; i++ {
		x.fileBytes++
		b := Var(fmt.Sprintf("%s_b%d", sanitize(o.Name), x.fileBytes), 8)
		x.store(Ptr{Obj: sl.Obj, Path: []Sel{{Idx: Add(sl.Off, BVi(int64(i), 64))}}}, b)
	}
	x.callLog = append(x.callLog, fmt.Sprintf("%s.Read(%d)", o.Name, n))
	return TupleV{BVi(int64(n), 64), IfaceV{}}
}

// ---------------------------------------------------------------- more of norm.Form

func normIsNormalString(x *Exec, fn *ssa.Function, a []Value) Value {
	f := asTerm(a[0])
	if !f.IsConst() {
		panic(unsupported("norm.Form with symbolic form"))
	}
	form := norm.Form(f.Int64())
	var s Value = a[1]
	if sl, ok := a[1].(SliceV); ok {
		s = x.bytesToString(sl)
	}
	if c, ok := s.(string); ok {
		return Bool(form.IsNormalString(c))
	}
	if form != norm.NFKD {
		panic(unsupported("IsNormal for a form other than NFKD on symbolic text"))
	}
	// normal  <=>  N(s) == s ; for text the structure cannot decide this is an unknown Boolean
	as := toAtoms(s)
	if len(as) == 1 && (as[0].K == AOpq || as[0].K == APre) {
		h := sha256sum([]byte(renderAtoms(as)))
		return Var(fmt.Sprintf("isnfkd_%x", h[:6]), 0)
	}
	return x.strEq(x.strNFKD(s), s)
}

func normAppendString(x *Exec, fn *ssa.Function, a []Value) Value {
	var s Value = a[2]
	if sl, ok := a[2].(SliceV); ok {
		s = x.bytesToString(sl)
	}
	r := normString(x, fn, []Value{a[0], s})
	dst := a[1].(SliceV)
	if c, ok := r.(string); ok {
		return x.builtinAppend(dst, c, nil)
	}
	// symbolic text: the result is a fresh byte view of the normalised string when dst is empty
	if dst.Len.IsConst() && dst.Len.Val.Sign() == 0 {
		if dst.Obj != nil {
			x.access(dst.Obj, nil, true) // the backing array is (over)written
		}
		return x.stringToBytes(r)
	}
	panic(unsupported("norm.Form.AppendString of symbolic text onto a non-empty slice"))
}

func init() {
	intrinsicTab["(golang.org/x/text/unicode/norm.Form).IsNormalString"] = normIsNormalString
	intrinsicTab["(golang.org/x/text/unicode/norm.Form).IsNormal"] = normIsNormalString
	intrinsicTab["(golang.org/x/text/unicode/norm.Form).AppendString"] = normAppendString
	intrinsicTab["(golang.org/x/text/unicode/norm.Form).Append"] = normAppendString
}

// ---------------------------------------------------------------- strings.Builder

func (x *Exec) builderKey(v Value) string {
	p := v.(Ptr)
	if p.Obj == nil {
		x.obligation(tFalse, "nil *strings.Builder")
	}
	return fmt.Sprintf("builder:%d%s", p.Obj.ID, pathKey(p.Path))
}

func (x *Exec) builderGet(v Value) Value {
	if s, ok := x.builders[x.builderKey(v)]; ok {
		return s
	}
	return ""
}

func (x *Exec) builderSet(v Value, s Value) {
	if x.builders == nil {
		x.builders = map[string]Value{}
	}
	x.builders[x.builderKey(v)] = s
}

func init() {
	intrinsicTab["(*strings.Builder).WriteString"] = func(x *Exec, fn *ssa.Function, a []Value) Value {
		x.builderSet(a[0], x.strConcat(x.builderGet(a[0]), a[1]))
		return TupleV{x.strLen(a[1]), IfaceV{}}
	}
	intrinsicTab["(*strings.Builder).WriteByte"] = func(x *Exec, fn *ssa.Function, a []Value) Value {
		b := asTerm(a[1])
		if !b.IsConst() {
			panic(unsupported("strings.Builder.WriteByte of a symbolic byte"))
		}
		x.builderSet(a[0], x.strConcat(x.builderGet(a[0]), string([]byte{byte(b.Uint64())})))
		return IfaceV{}
	}
	intrinsicTab["(*strings.Builder).WriteRune"] = func(x *Exec, fn *ssa.Function, a []Value) Value {
		r := asTerm(a[1])
		if !r.IsConst() {
			panic(unsupported("strings.Builder.WriteRune of a symbolic rune"))
		}
		s := string(rune(r.Int64()))
		x.builderSet(a[0], x.strConcat(x.builderGet(a[0]), s))
		return TupleV{BVi(int64(len(s)), 64), IfaceV{}}
	}
	intrinsicTab["(*strings.Builder).Write"] = func(x *Exec, fn *ssa.Function, a []Value) Value {
		s := x.bytesToString(a[1].(SliceV))
		x.builderSet(a[0], x.strConcat(x.builderGet(a[0]), s))
		return TupleV{a[1].(SliceV).Len, IfaceV{}}
	}
	intrinsicTab["(*strings.Builder).String"] = func(x *Exec, fn *ssa.Function, a []Value) Value { return x.builderGet(a[0]) }
	intrinsicTab["(*strings.Builder).Len"] = func(x *Exec, fn *ssa.Function, a []Value) Value { return x.strLen(x.builderGet(a[0])) }
	intrinsicTab["(*strings.Builder).Grow"] = func(x *Exec, fn *ssa.Function, a []Value) Value {
		x.obligation(Not(Slt(asTerm(a[1]), BVi(0, 64))), "strings.Builder.Grow: negative count")
		return nil
	}
	intrinsicTab["(*strings.Builder).Reset"] = func(x *Exec, fn *ssa.Function, a []Value) Value {
		x.builderSet(a[0], "")
		return nil
	}
	intrinsicTab["strings.Count"] = func(x *Exec, fn *ssa.Function, a []Value) Value {
		sep, ok := a[1].(string)
		if !ok {
			panic(unsupported("strings.Count with symbolic separator"))
		}
		if s, ok := a[0].(string); ok {
			return BVi(int64(strings.Count(s, sep)), 64)
		}
		as := toAtoms(a[0])
		sa := atomsOfString(sep)
		if len(as) == 1 && as[0].K == APre && simpleAtoms(as[0].Sub) && len(sa) == 1 && sa[0].K == ASep {
			// occurrences of one whitespace rune in an arbitrary pre-image of a normal form: every such
			// rune normalises to one separator of the normal form, so the count is any value up to the
			// number of those separators, and the counts of different runes add up to at most that number
			img := norm.NFKD.String(sep)
			S := 0
			for _, at := range as[0].Sub {
				if at.K == ASep && at.S == img {
					S++
				}
			}
			key := as[0].S + "\x00" + img
			if x.preCounts == nil {
				x.preCounts = map[string]map[string]*Term{}
			}
			if x.preCounts[key] == nil {
				x.preCounts[key] = map[string]*Term{}
			}
			if c, ok := x.preCounts[key][sep]; ok {
				return c
			}
			c := x.fresh("precount", 64)
			sum := c
			for _, o := range x.preCounts[key] {
				sum = Add(sum, o)
			}
			x.preCounts[key][sep] = c
			x.addPC(Ule(c, BVi(int64(S), 64)))
			x.addPC(Ule(sum, BVi(int64(S), 64)))
			return c
		}
		if !simpleAtoms(as) || len(sa) != 1 || sa[0].K != ASep {
			panic(unsupported("strings.Count on opaque text or of a non-whitespace pattern"))
		}
		n := 0
		for _, at := range as {
			if at.K == ASep && at.S == sep {
				n++
			}
		}
		return BVi(int64(n), 64)
	}
}
