package main

// Inconclusive fallback (DESIGN §6.2): when the encoder cannot follow the implementation on some
// path (unsupported construct, imprecise string operation, bound exceeded), the harness is
// executed once more with every call into the implementation replaced by a stub returning zero
// values ("havoc mode"): only the harness' own input constraints and the reference side remain,
// which the engine can always encode. The solver then produces concrete inputs satisfying those
// constraints (valid checksums included, through the SHA-256 refinement loop) for every
// reference-side path, diversified by random soft pins derived from VERIF_SEED plus boundary
// pins, and these are run natively against the real code under the harness assertions.
// A native failure is a true violation; otherwise the claim is reduced and said so.

import (
	"fmt"
	"math/big"
	"math/rand"
	"os"
	"strings"
	"time"

	"golang.org/x/tools/go/ssa"
)

func (x *Exec) isHarnessFunc(fn *ssa.Function) bool {
	if fn == nil {
		return false
	}
	f := fn
	for f.Parent() != nil {
		f = f.Parent()
	}
	if f.Pkg != x.P.Pkg && f.Pkg != nil {
		return false
	}
	pos := f.Pos()
	if !pos.IsValid() {
		if f.Synthetic != "" && f.Pkg == x.P.Pkg {
			// wrappers/thunks of harness methods
			return strings.Contains(f.String(), "verif")
		}
		return false
	}
	return strings.HasSuffix(x.P.Prog.Fset.Position(pos).Filename, harnessVirtualName)
}

// havocResult: zero value(s) of fn's result type.
func (x *Exec) havocResult(fn *ssa.Function) Value {
	res := fn.Signature.Results()
	switch res.Len() {
	case 0:
		return nil
	case 1:
		return x.zero(res.At(0).Type())
	}
	tv := make(TupleV, res.Len())
	for i := range tv {
		tv[i] = x.zero(res.At(i).Type())
	}
	return tv
}

type fallbackVec struct {
	vals map[string]interface{}
}

// fallbackVectors explores the harness in havoc mode and returns solver-generated input vectors.
func (inst *Instance) fallbackVectors(P *Program, solverName string, timeoutMs int, seed int, stats *SolverStats, perPath int) []map[string]interface{} {
	solver := NewSolver(solverName, timeoutMs, seed, stats)
	defer solver.Close()
	if inst.in == nil || inst.snap == nil {
		if !inst.prepare(P, solver) {
			return nil
		}
	}
	inst.deadline = time.Now().Add(150 * time.Second)
	inst.solverTimeouts = 0
	rng := rand.New(rand.NewSource(int64(seed)*7919 + int64(len(inst.Harness))))
	var out []map[string]interface{}
	work := [][]Decision{nil}
	paths := 0
	for len(work) > 0 && paths < 48 && len(out) < 1500 {
		prefix := work[len(work)-1]
		work = work[:len(work)-1]
		paths++
		x := &Exec{inst: inst, P: P, solver: solver, in: inst.in, prefix: prefix,
			globals: map[*ssa.Global]*Object{}, externs: map[string]*Object{}, writes: map[string]bool{},
			funcsSeen: map[string]bool{}, havoc: true}
		end := x.runPath()
		work = append(work, x.alts...)
		if os.Getenv("VERIF_DEBUG") != "" {
			fmt.Fprintf(os.Stderr, "fallback path %d: end=%s %s inputs=%d pc=%d alts=%d\n", paths, end.Kind, firstLine(end.Msg), len(x.inputs), len(x.pc), len(x.alts))
		}
		if end.Kind == "enginebug" || end.Kind == "infeasible" {
			continue
		}
		func() {
			defer func() {
				if r := recover(); r != nil {
					if _, ok := r.(pathEnd); !ok {
						panic(r)
					}
				}
			}()
			x.diverseModels(rng, perPath, &out)
		}()
	}
	return out
}

// diverseModels: boundary and randomly pinned models of the current path condition.
func (x *Exec) diverseModels(rng *rand.Rand, k int, sink *[]map[string]interface{}) {
	out := *sink
	defer func() { *sink = out }()
	bulkDone := false
	type pinf func(in Input, t *Term, i int) *Term
	randomPin := func(in Input, t *Term, i int) *Term {
		switch in.Kind {
		case "bytes":
			return Eq(t, BVi(int64(rng.Intn(256)), 8))
		case "token":
			r := rng.Intn(10)
			switch {
			case r < 8:
				return Eq(t, BVi(int64(rng.Intn(2048)), IDW))
			case r == 8:
				return Eq(t, BVi(int64(x.in.ID("")), IDW))
			default:
				return Eq(t, BVi(int64(UnkBase+rng.Intn(600)), IDW))
			}
		case "int":
			switch rng.Intn(4) {
			case 0:
				return Eq(t, BVi(int64(rng.Intn(64))-8, 64))
			case 1:
				// values that alias a small size under a narrowing conversion or an overflowing product
				bases := []uint64{1 << 8, 1 << 16, 1 << 31, 1 << 32, 1 << 62, 1 << 63, 0}
				deltas := []int64{-1, 0, 1, 12, 14, 15, 16, 18, 20, 21, 24, 28, 32}
				b := bases[rng.Intn(len(bases))] * uint64(1+rng.Intn(2))
				return Eq(t, BVu(b+uint64(deltas[rng.Intn(len(deltas))]), 64))
			}
			return Eq(Extract(10, 0, t), BVi(int64(rng.Intn(2048)), 11))
		case "bool":
			return Eq(t, Bool(rng.Intn(2) == 0))
		}
		return nil
	}
	constPin := func(b, tokIdx int64) pinf {
		return func(in Input, t *Term, i int) *Term {
			switch in.Kind {
			case "bytes":
				return Eq(t, BVi(b, 8))
			case "token":
				return Eq(t, BVi(tokIdx, IDW))
			case "int":
				return Eq(Extract(10, 0, t), BVi(tokIdx, 11))
			}
			return nil
		}
	}
	leadZero := func(in Input, t *Term, i int) *Term {
		if in.Kind == "bytes" && i < 2 {
			return Eq(t, BVi(0, 8))
		}
		if (in.Kind == "token" || in.Kind == "int") && strings.HasSuffix(in.Name, "0") {
			if in.Kind == "token" {
				return Eq(t, BVi(0, IDW))
			}
			return Eq(Extract(10, 0, t), BVi(0, 11))
		}
		return randomPin(in, t, i)
	}
	// separators at the edges of the sentence: first / last token empty
	maxTok := ""
	for _, in := range x.inputs {
		if in.Kind == "token" && (len(in.Name) > len(maxTok) || (len(in.Name) == len(maxTok) && in.Name > maxTok)) {
			maxTok = in.Name
		}
	}
	edgeEmpty := func(last bool) pinf {
		return func(in Input, t *Term, i int) *Term {
			if in.Kind == "token" {
				isEdge := (last && in.Name == maxTok) || (!last && (in.Name == "t0" || in.Name == "a0" || in.Name == "b0"))
				if isEdge {
					return Eq(t, BVi(int64(x.in.ID("")), IDW))
				}
				return Eq(t, BVi(int64(rng.Intn(2048)), IDW))
			}
			return randomPin(in, t, i)
		}
	}
	var strategies []pinf
	if maxTok != "" {
		// sentences with a separator at either end come first: they are kept whatever the budget
		strategies = append(strategies, edgeEmpty(true), edgeEmpty(false))
		k += 2
	}
	strategies = append(strategies, constPin(0, 0), constPin(255, 2047), leadZero)
	for len(strategies) < k {
		strategies = append(strategies, randomPin)
	}
	// sweep of boundary integers for every integer input (sizes, counts, language values)
	nInts := 0
	for _, in := range x.inputs {
		if in.Kind == "int" {
			nInts++
		}
	}
	{
		bases := []uint64{0, 1 << 8, 2 << 8, 1 << 16, 1 << 31, 1 << 32, 1 << 62, 1 << 63}
		deltas := []int64{-16, -1, 0, 1, 9, 10, 11, 12, 13, 14, 15, 16, 17, 18, 20, 21, 24, 25, 28, 32, 33}
		for _, in := range x.inputs {
			if in.Kind != "int" || nInts > 4 {
				continue
			}
			for _, b := range bases {
				for _, d := range deltas {
					r, m := x.queryModel([]*Term{Eq(in.Terms[0], BVu(b+uint64(d), 64))})
					if r == "sat" {
						out = append(out, x.nativeValues(m))
					}
				}
			}
		}
	}
	// sentences made of one repeated word: the longest / shortest word of the list (in bytes of its
	// stored form), the first and the last entry. Pins go on the reference-side word indices; those the
	// checksum determines are dropped from the end until the query is satisfiable.
	if len(x.goldenIdx) > 0 {
		words := goldenList(x.goldenIdxLang)
		longest, shortest := 0, 0
		for i, w := range words {
			if len(w) > len(words[longest]) {
				longest = i
			}
			if len(w) < len(words[shortest]) {
				shortest = i
			}
		}
		for _, k := range []int{longest, shortest, 0, 2047} {
			var pins []*Term
			for _, t := range x.goldenIdx {
				pins = append(pins, Eq(t, BVi(int64(k), t.W)))
			}
			for len(pins) > 0 {
				r, m := x.queryModel(pins)
				if r == "sat" {
					out = append(out, x.nativeValues(m))
					break
				}
				pins = pins[:len(pins)-1]
			}
		}
	}
	runBulk := func() {
		if !bulkDone {
			bulkDone = true
			// bulk candidates checked by evaluation (no solver calls)
			out = append(out, x.bulkModels(rng, x.inst.bulkWitnesses())...)
		}
	}
	defer runBulk()
	for si, strat := range strategies[:k] {
		if (maxTok == "" && si == 0) || (maxTok != "" && si == 2) {
			runBulk() // after the edge-separator sentences, before the other solver-pinned ones
		}
		var pins []*Term
		for _, in := range x.inputs {
			for i, t := range in.Terms {
				if p := strat(in, t, i); p != nil {
					pins = append(pins, p)
				}
			}
		}
		var m map[int]*big.Int
		// drop pins from the end until satisfiable (constraints such as a valid checksum fix some inputs)
		for attempt := 0; attempt < 6; attempt++ {
			r, mm := x.queryModel(pins)
			if r == "sat" {
				m = mm
				break
			}
			if len(pins) == 0 {
				break
			}
			cut := len(pins) / 4
			if cut == 0 {
				cut = 1
			}
			// remove a random quarter of the pins
			for c := 0; c < cut && len(pins) > 0; c++ {
				j := rng.Intn(len(pins))
				pins = append(pins[:j], pins[j+1:]...)
			}
			if attempt == 4 {
				pins = nil
			}
		}
		if m != nil {
			out = append(out, x.nativeValues(m))
		}
	}
}

// runFallback generates and natively runs witnesses for every inconclusive instance.
func (c *CheckRun) runFallback() {
	var vecs []*Vector
	var owners []*Instance
	perPath := 5
	if c.Cfg.Tier == "thorough" {
		perPath = 12
	}
	total := 0
	for _, inst := range c.Insts {
		if inst.Inconclusive() && inst.Harness != "H_C12_pair" {
			total++
		}
	}
	if total == 0 {
		return
	}
	// the native budget (about 30 000 runs) is shared evenly between the inconclusive instances
	perInst := 30000 / total
	bulk := 6000 / total
	if bulk > 200 {
		bulk = 200
	}
	if bulk < 8 {
		bulk = 8
	}
	// solver-pinned strategies are the expensive part: fewer of them when many instances need the fallback
	switch {
	case total > 60:
		perPath = 1
	case total > 20:
		perPath = 2
	}
	n := 0
	for _, inst := range c.Insts {
		if !inst.Inconclusive() || inst.Harness == "H_C12_pair" {
			continue
		}
		inst.BulkWitnesses = bulk
		n++
		if n > 240 {
			break
		}
		if len(vecs) > 30000 {
			break
		}
		base := inst.fallbackVectors(c.P, c.Cfg.Solvers[0], c.Cfg.Timeout, c.Cfg.Seed, c.Stats[c.Cfg.Solvers[0]], perPath)
		base = append(base, readerScripts(inst, base)...)
		added := 0
		for _, vals := range base {
			all := append([]map[string]interface{}{vals}, spellingVariants(vals)...)
			if added+len(all) > perInst && added > 0 {
				all = all[:1]
			}
			if added >= perInst {
				break
			}
			added += len(all)
			for _, v := range all {
				if strings.HasPrefix(inst.Harness, "H_C13_entropy") {
					v["stress"] = 400 // native only: a long call history after the symbolic part
				}
				vecs = append(vecs, &Vector{Harness: inst.Harness, Args: inst.Args, Vals: v, Property: c.Spec.ID, Kind: "fallback-witness"})
				owners = append(owners, inst)
			}
		}
	}
	c.Extra["fallback_instances"] = n
	c.Extra["fallback_witnesses_run_natively"] = len(vecs)
	if os.Getenv("VERIF_DEBUG") != "" {
		fmt.Fprintf(os.Stderr, "fallback: %d inconclusive instances, %d native witnesses\n", n, len(vecs))
		for i, v := range vecs {
			if i < 40 {
				fmt.Fprintf(os.Stderr, "  vec %s %v %v\n", v.Harness, v.Args, v.Vals)
			}
		}
	}
	if len(vecs) == 0 {
		return
	}
	res, err := c.Replayer.Run(vecs)
	if err != nil {
		c.Broken = append(c.Broken, "native replay (fallback): "+err.Error())
		return
	}
	osMkdirAll(evidenceDir() + "/replays")
	seen := map[string]bool{}
	nviol := 0
	for i, r := range res {
		if r.Assumed {
			continue
		}
		var hit []string
		for _, l := range r.Failures {
			if c.labelIn(l) {
				hit = append(hit, l)
			}
		}
		if r.Panic != "" && c.Spec.Panics {
			hit = append(hit, "panic: "+r.Panic)
		}
		if len(hit) == 0 {
			continue
		}
		k := owners[i].Key() + "|" + hit[0]
		if seen[k] {
			continue
		}
		seen[k] = true
		nviol++
		if nviol > 12 {
			continue
		}
		v := vecs[i]
		v.Label = hit[0]
		v.Note = fmt.Sprintf("found by solver-generated reference-side witness after the encoding was inconclusive; native replay: failures=%v panic=%q", r.Failures, r.Panic)
		path := fmt.Sprintf("%s/replays/%s-fb%d.json", evidenceDir(), c.Spec.ID, nviol)
		writeJSON(path, v)
		c.Violations = append(c.Violations, path)
		if len(c.Samples) < 6 {
			c.Samples = append(c.Samples, map[string]interface{}{"kind": "violation (fallback witness)", "harness": v.Harness, "args": v.Args, "label": v.Label, "inputs": v.Vals})
		}
	}
	c.Extra["fallback_violations"] = nviol
}

// readerScripts: when the ordinary exploration met the nondeterministic reader (inputs k<i>, kind<i>)
// but the reference-side re-execution cannot (the implementation is stubbed there), its behaviour
// is enumerated directly over the property's own quantifier: every failure point, every failure
// kind, with or without bytes alongside the error, one or two fragments before it.
func readerScripts(inst *Instance, base []map[string]interface{}) []map[string]interface{} {
	if inst.SeenInputs["k0"] != "int" {
		return nil
	}
	var proto map[string]interface{}
	if len(base) > 0 {
		proto = base[len(base)-1]
	} else {
		proto = map[string]interface{}{"goldenlang": inst.Lang}
	}
	mk := func(ks, kinds []int) map[string]interface{} {
		m := map[string]interface{}{}
		for k, v := range proto {
			m[k] = v
		}
		for i := range ks {
			m[fmt.Sprintf("k%d", i)] = int64(ks[i])
			m[fmt.Sprintf("kind%d", i)] = int64(kinds[i])
		}
		if _, ok := m["s"]; !ok {
			bs := make([]int, 40)
			for i := range bs {
				bs[i] = (i*37 + 11) % 256
			}
			m["s"] = bs
		}
		return m
	}
	var out []map[string]interface{}
	for total := 0; total <= 36; total++ {
		for kind := 0; kind <= 4; kind++ {
			// everything in one read, outcome `kind`; a clean short read is followed by EOF / an error
			out = append(out, mk([]int{total, 0, 0, 0}, []int{kind, 1, 1, 1}))
			out = append(out, mk([]int{total, 0, 0, 0}, []int{kind, 3, 3, 3}))
			for _, first := range []int{1, 5, 16} {
				if first < total {
					out = append(out, mk([]int{first, total - first, 0, 0}, []int{0, kind, 1, 1}))
				}
			}
		}
	}
	return out
}

func (inst *Instance) bulkWitnesses() int {
	if inst.BulkWitnesses > 0 {
		return inst.BulkWitnesses
	}
	return 200
}

// bulkModels: many cheap candidate assignments (random, with boundary bytes), each *checked against the
// path condition by evaluation* (real SHA-256 for the uninterpreted H) instead of a solver call; only
// assignments that satisfy every constraint are kept. Used where the reference-side constraints are weak
// (arbitrary entropy, arbitrary tokens), so that rare inputs are met by volume.
func (x *Exec) bulkModels(rng *rand.Rand, n int) []map[string]interface{} {
	var out []map[string]interface{}
	cons := append(append([]*Term{}, x.pc...), x.lateConstraints()...)
	cons = append(cons, x.hfacts...)
	uf := func(name string, args []*big.Int) *big.Int {
		if name == "H" && len(args) == 2 {
			if d, ok := realH(args[0], args[1]); ok {
				return d
			}
		}
		return big.NewInt(0)
	}
	// integer inputs with a small constant range (a word index, a language) are enumerated completely
	smallRanges := 0
	for _, in := range x.inputs {
		if in.Kind == "int" && in.HasRange && in.Hi-in.Lo <= 4096 {
			smallRanges++
			if int(in.Hi-in.Lo)+1 > n {
				n = int(in.Hi-in.Lo) + 1
			}
		}
	}
	for it := 0; it < n; it++ {
		env := map[string]*big.Int{}
		m := map[int]*big.Int{}
		mode := rng.Intn(4)
		for _, in := range x.inputs {
			for _, t := range in.Terms {
				if t.Op != "var" {
					continue
				}
				var v *big.Int
				switch in.Kind {
				case "bytes":
					switch {
					case mode == 0 && rng.Intn(3) == 0:
						v = big.NewInt(0)
					case mode == 1 && rng.Intn(3) == 0:
						v = big.NewInt(255)
					default:
						v = big.NewInt(int64(rng.Intn(256)))
					}
				case "token":
					if rng.Intn(12) == 0 {
						v = big.NewInt(int64(UnkBase + rng.Intn(600)))
					} else {
						v = big.NewInt(int64(rng.Intn(2048)))
					}
				case "int":
					switch {
					case in.HasRange && in.Hi-in.Lo <= 4096 && smallRanges <= 2:
						v = big.NewInt(in.Lo + int64(it)%(in.Hi-in.Lo+1))
					case in.HasRange && in.Hi-in.Lo < 1<<30:
						v = big.NewInt(in.Lo + rng.Int63n(in.Hi-in.Lo+1))
					default:
						v = big.NewInt(int64(rng.Intn(2048)))
					}
				case "bool", "env":
					v = big.NewInt(int64(rng.Intn(2)))
				default:
					continue
				}
				env[t.Name] = v
				m[t.id] = v
			}
		}
		ok := true
		memo := map[int]*big.Int{}
		for _, c := range cons {
			if Eval(x.simp(c), env, uf, memo).Sign() == 0 {
				ok = false
				break
			}
		}
		if ok {
			out = append(out, x.nativeValues(m))
		}
	}
	return out
}
