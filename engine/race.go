package main

// C12: data-race decision over extracted event traces (DESIGN §7 C12).
//
// For an ordered pair of exported calls (A, B) the engine runs A then B from the cold post-init
// state with event logging. tA = A's shared-memory/sync events (A wins every first use),
// tB|A = B's events when it comes second. The concurrent execution "A and B from a cold start in
// two goroutines, A winning the sync.Once objects both use" has exactly these per-thread event
// sequences; the only cross-thread happens-before edges are those of sync.Once (completion of f
// happens-before the return of any other Do on the same Once). The solver is asked for a
// conflicting pair (same location, different threads, at least one write) unordered in the least
// happens-before relation; B-wins is the swapped instance.

import (
	"fmt"
	"os"
	"sort"
	"strings"
)

type raceEvent struct {
	ord    int
	thread int
	seg    int // segment index within thread (increments at every sync event)
	sync   string
	syncID int
	obj    *Object
	path   string
	write  bool
}

type raceCached struct {
	conflicts, ordered int
	races              []string
}

var raceCache = map[string]raceCached{}

// raceSignature renders a trace with objects renamed by first occurrence.
func raceSignature(all []raceEvent) string {
	ids := map[*Object]int{}
	sids := map[int]int{}
	rank := make([]int, len(all))
	idx := make([]int, len(all))
	for i := range idx {
		idx[i] = i
	}
	sort.Slice(idx, func(a, b int) bool { return all[idx[a]].ord < all[idx[b]].ord })
	for r, i := range idx {
		rank[i] = r
	}
	var sb strings.Builder
	for i, e := range all {
		id, ok := ids[e.obj]
		if !ok {
			id = len(ids)
			ids[e.obj] = id
		}
		sid, ok := sids[e.syncID]
		if !ok {
			sid = len(sids)
			sids[e.syncID] = sid
		}
		fmt.Fprintf(&sb, "%d:%d:%s:%d:%s:%v:%d;", e.thread, rank[i], e.sync, id, e.path, e.write, sid)
	}
	return sb.String()
}

type raceResult struct {
	CacheHits   int
	Queries     int
	Conflicts   int // conflicting pairs examined (all must be ordered)
	OrderedBySW int // conflicting pairs ordered only through a sync.Once edge
	Races       []string
	RacePairs   int
	Threads     int
	Events      int
	UnknownSync []string
}

func pathsOverlap(a, b string) bool {
	if a == b || a == "" || b == "" {
		return true
	}
	// component-wise with [*] wildcard; prefix relation counts as overlap
	ca := strings.FieldsFunc(a, func(r rune) bool { return r == '.' || r == '[' })
	cb := strings.FieldsFunc(b, func(r rune) bool { return r == '.' || r == '[' })
	n := len(ca)
	if len(cb) < n {
		n = len(cb)
	}
	for i := 0; i < n; i++ {
		if ca[i] == cb[i] || ca[i] == "*]" || cb[i] == "*]" {
			continue
		}
		return false
	}
	return true
}

// splitThreads cuts one path's event list at the harness marks into per-thread traces,
// coalescing repeated accesses within a sync-free segment.
func splitThreads(evs []AccessEvent) [][]raceEvent {
	var threads [][]raceEvent
	cur := -1
	seg := 0
	seen := map[string]bool{}
	for ord, e := range evs {
		if strings.HasPrefix(e.Sync, "mark:") {
			if e.Sync == "mark:end" {
				cur = -2
				continue
			}
			threads = append(threads, nil)
			cur = len(threads) - 1
			seg = 0
			seen = map[string]bool{}
			continue
		}
		if cur < 0 {
			continue
		}
		if e.Sync != "" {
			seg++
			seen = map[string]bool{}
			threads[cur] = append(threads[cur], raceEvent{ord: ord, thread: cur, seg: seg, sync: e.Sync, syncID: e.SyncID, obj: e.Obj, path: e.Path})
			seg++
			continue
		}
		k := fmt.Sprintf("%d|%s|%v", e.Obj.ID, e.Path, e.Write)
		if seen[k] {
			continue
		}
		seen[k] = true
		threads[cur] = append(threads[cur], raceEvent{ord: ord, thread: cur, seg: seg, obj: e.Obj, path: e.Path, write: e.Write})
	}
	return threads
}

// splitSched: per-thread traces of an interleaved (verifPar) run; the observed global order is kept in ord.
func splitSched(evs []AccessEvent) [][]raceEvent {
	threads := [][]raceEvent{nil, nil}
	seg := []int{0, 0}
	seen := []map[string]bool{{}, {}}
	in := false
	for ord, e := range evs {
		if e.Sync == "mark:par-begin" {
			in = true
			continue
		}
		if e.Sync == "mark:par-end" {
			in = false
			continue
		}
		if !in || e.Thread < 0 || e.Thread > 1 || (e.Sync != "" && len(e.Sync) > 5 && e.Sync[:5] == "mark:") {
			continue
		}
		t := e.Thread
		if e.Sync != "" {
			seg[t]++
			seen[t] = map[string]bool{}
			threads[t] = append(threads[t], raceEvent{ord: ord, thread: t, seg: seg[t], sync: e.Sync, syncID: e.SyncID, obj: e.Obj, path: e.Path})
			seg[t]++
			continue
		}
		k := fmt.Sprintf("%d|%s|%v", e.Obj.ID, e.Path, e.Write)
		if seen[t][k] {
			continue
		}
		seen[t][k] = true
		threads[t] = append(threads[t], raceEvent{ord: ord, thread: t, seg: seg[t], obj: e.Obj, path: e.Path, write: e.Write})
	}
	return threads
}

// decideRaces encodes happens-before as Boolean unknowns closed under program order,
// synchronises-with and transitivity, and asks for an unordered conflicting pair.
func decideRaces(solver *Solver, threads [][]raceEvent, label string, res *raceResult) {
	// keep only synchronisation events and accesses that have a conflicting partner in the other
	// thread (accesses to locations nobody else writes cannot race and only enlarge the closure)
	var all []raceEvent
	for ti, t := range threads {
		for _, e := range t {
			if e.sync != "" {
				all = append(all, e)
				continue
			}
			keep := false
			for tj, u := range threads {
				if tj == ti {
					continue
				}
				for _, f := range u {
					if f.sync == "" && f.obj == e.obj && (f.write || e.write) && pathsOverlap(f.path, e.path) {
						keep = true
						break
					}
				}
			}
			if keep {
				all = append(all, e)
			}
		}
	}
	// identical trace shapes have identical answers: canonical signature -> cached verdict
	sig := raceSignature(all)
	if r, ok := raceCache[sig]; ok {
		res.Events += len(all)
		res.Conflicts += r.conflicts
		res.OrderedBySW += r.ordered
		res.CacheHits++
		for _, m := range r.races {
			res.RacePairs++
			res.Races = append(res.Races, label+": "+m)
		}
		return
	}
	before := *res
	defer func() {
		var rs []string
		for _, m := range res.Races[len(before.Races):] {
			rs = append(rs, strings.TrimPrefix(m, label+": "))
		}
		raceCache[sig] = raceCached{conflicts: res.Conflicts - before.Conflicts, ordered: res.OrderedBySW - before.OrderedBySW, races: rs}
	}()
	n := len(all)
	res.Threads = len(threads)
	res.Events += n
	if n == 0 {
		return
	}
	// Two threads: a chain of synchronises-with edges can always be shortened to a single edge
	// (edges follow the observed order, so a later edge's target is program-ordered after an
	// earlier edge's target), hence  hb(a,b)  <=>  some edge s->t with a <=po s and t <=po b.
	// Edges are Boolean unknowns asserted true; program order is known; the solver decides.
	pos := make([]int, n) // position within its thread
	cnt := map[int]int{}
	for i := range all {
		pos[i] = cnt[all[i].thread]
		cnt[all[i].thread]++
	}
	uniq := fmt.Sprintf("sw%d_%s", res.Queries, sanitize(label))
	type edge struct {
		s, t int
		v    *Term
	}
	var edges []edge
	var cs []*Term
	addEdge := func(i, j int) {
		v := Var(fmt.Sprintf("%s_%d", uniq, len(edges)), 0)
		edges = append(edges, edge{i, j, v})
		cs = append(cs, v)
	}
	lastBefore := func(j int, pred func(k int) bool) int {
		best := -1
		for k := 0; k < n; k++ {
			if all[k].ord < all[j].ord && pred(k) && (best < 0 || all[k].ord > all[best].ord) {
				best = k
			}
		}
		return best
	}
	for j := 0; j < n; j++ {
		switch all[j].sync {
		case "once-skip":
			for i := 0; i < n; i++ {
				if all[i].sync == "once-end" && all[i].thread != all[j].thread && all[i].syncID == all[j].syncID && all[i].ord < all[j].ord {
					addEdge(i, j)
				}
			}
		case "atomic-load":
			i := lastBefore(j, func(k int) bool {
				return all[k].sync == "atomic-store" && all[k].obj == all[j].obj && all[k].path == all[j].path
			})
			if i >= 0 && all[i].thread != all[j].thread {
				addEdge(i, j)
			}
		case "lock", "rlock":
			// Go memory model: the n-th Unlock is synchronised before the return of a later (R)Lock;
			// an RUnlock is synchronised before the return of the next Lock (not of another RLock)
			u := lastBefore(j, func(k int) bool { return all[k].sync == "unlock" && all[k].syncID == all[j].syncID })
			if u >= 0 && all[u].thread != all[j].thread {
				addEdge(u, j)
			}
			if all[j].sync == "lock" {
				for k := 0; k < n; k++ {
					if all[k].sync == "runlock" && all[k].syncID == all[j].syncID && all[k].thread != all[j].thread &&
						all[k].ord < all[j].ord && (u < 0 || all[k].ord > all[u].ord) {
						addEdge(k, j)
					}
				}
			}
		}
	}
	for i := 0; i < n; i++ {
		switch all[i].sync {
		case "", "once-enter", "once-skip", "once-begin", "once-end", "atomic-load", "atomic-store", "lock", "unlock", "rlock", "runlock", "pool-get", "pool-put":
		default:
			res.UnknownSync = append(res.UnknownSync, all[i].sync)
		}
	}
	hbTerm := func(a, b int) *Term {
		var ors []*Term
		for _, e := range edges {
			if all[e.s].thread == all[a].thread && all[e.t].thread == all[b].thread && pos[a] <= pos[e.s] && pos[e.t] <= pos[b] {
				ors = append(ors, e.v)
			}
		}
		return Or(ors...)
	}
	// conflicting pairs
	type pair struct{ i, j int }
	var conf []pair
	var ors []*Term
	var pairTerms [][2]*Term
	for i := 0; i < n; i++ {
		for j := i + 1; j < n; j++ {
			a, b := all[i], all[j]
			if a.thread == b.thread || a.sync != "" || b.sync != "" || a.obj != b.obj || !(a.write || b.write) || !pathsOverlap(a.path, b.path) {
				continue
			}
			conf = append(conf, pair{i, j})
			hab, hba := hbTerm(i, j), hbTerm(j, i)
			pairTerms = append(pairTerms, [2]*Term{hab, hba})
			ors = append(ors, And(Not(hab), Not(hba)))
		}
	}
	res.Conflicts += len(conf)
	if len(conf) == 0 {
		return
	}
	res.Queries++
	// one Boolean per pair tells whether it is unordered in the model
	var want []*Term
	var extra []*Term
	for k, pt := range pairTerms {
		u := Var(fmt.Sprintf("%s_unordered_%d", uniq, k), 0)
		extra = append(extra, Eq(u, And(Not(pt[0]), Not(pt[1]))))
		want = append(want, u)
	}
	r, vals := solver.Check(append(append(cs, extra...), Or(ors...)), want)
	switch r {
	case "unsat":
		res.OrderedBySW += len(conf)
	case "sat":
		for k, p := range conf {
			if vals[k].Sign() != 0 {
				a, b := all[p.i], all[p.j]
				res.RacePairs++
				res.Races = append(res.Races, fmt.Sprintf("%s: %s %s%s (thread %d) || %s %s%s (thread %d)", label,
					rw(a.write), a.obj.Name, a.path, a.thread, rw(b.write), b.obj.Name, b.path, b.thread))
			}
		}
	default:
		res.Races = append(res.Races, label+": solver unknown")
	}
}

func rw(w bool) string {
	if w {
		return "write"
	}
	return "read"
}

func sanitize(s string) string {
	var sb strings.Builder
	for _, r := range s {
		if (r >= 'a' && r <= 'z') || (r >= 'A' && r <= 'Z') || (r >= '0' && r <= '9') {
			sb.WriteRune(r)
		} else {
			sb.WriteByte('_')
		}
	}
	return sb.String()
}

var c12OpNames = []string{"CheckMnemonic(valid-shaped)", "IsMnemonicValid", "NewMnemonicByEntropy", "NewMnemonic", "MnemonicToSeed", "Language.String", "CheckMnemonic(unknown word)", "CheckMnemonic(wrong count)"}

func c12Instances(tier string) []*Instance {
	var out []*Instance
	nops := int64(len(c12OpNames))
	add := func(a, lgA, b, lgB, sym int64) {
		out = append(out, &Instance{Harness: "H_C12_pair", Args: []int64{a, lgA, b, lgB, sym}, Lang: int(lgA), LogEvents: true, MaxWitnesses: 0})
	}
	for lgA := int64(0); lgA < 10; lgA++ {
		if only := os.Getenv("VERIF_C12_ONLY"); only != "" && only != fmt.Sprint(lgA) {
			continue
		}
		partners := []int64{lgA, (lgA + 1) % 10}
		if tier == "thorough" {
			partners = allLangs()
		}
		for _, lgB := range partners {
			for a := int64(0); a < nops; a++ {
				for b := int64(0); b < nops; b++ {
					add(a, lgA, b, lgB, 0)
				}
			}
		}
		// interleaving exploration (cooperative threads) for the calls that reach the lazily built tables
		schedOps := []int64{0, 2, 6}
		if tier == "thorough" {
			schedOps = []int64{0, 1, 2, 3, 4, 5, 6, 7}
		}
		for _, lgB := range partners {
			for _, a := range schedOps {
				for _, b := range schedOps {
					out = append(out, &Instance{Harness: "H_C12_sched", Args: []int64{a, lgA, b, lgB, 0}, Lang: int(lgA), LogEvents: true, MaxWitnesses: 0})
				}
			}
		}
		// symbolic arguments for the calls that reach the lazily built table
		symOps := []int64{0, 2}
		if tier == "thorough" {
			symOps = []int64{0, 1, 2, 4, 6}
		}
		if tier == "thorough" || lgA == 2 || lgA == 5 {
			for _, a := range symOps {
				for _, b := range symOps {
					add(a, lgA, b, lgA, 1)
				}
			}
		}
	}
	return out
}

func c12Post(c *CheckRun) {
	stats := c.Stats[c.Cfg.Solvers[0]]
	solver := NewSolver(c.Cfg.Solvers[0], c.Cfg.Timeout, c.Cfg.Seed, stats)
	defer solver.Close()
	total := &raceResult{}
	raceInst := map[string]*Instance{}
	var labels []string
	for _, inst := range c.Insts {
		if inst.Harness != "H_C12_pair" && inst.Harness != "H_C12_sched" {
			continue
		}
		for pi, threads := range inst.Traces {
			if len(threads) != 2 {
				continue
			}
			if os.Getenv("VERIF_DEBUG") != "" {
				fmt.Fprintf(os.Stderr, "c12 %v trace %d: thread events %d + %d\n", inst.Args, pi, len(threads[0]), len(threads[1]))
				for _, t := range threads {
					for _, e := range t {
						if e.sync != "" {
							fmt.Fprintf(os.Stderr, "   T%d seg%d %s#%d\n", e.thread, e.seg, e.sync, e.syncID)
						} else {
							fmt.Fprintf(os.Stderr, "   T%d seg%d %s %s%s\n", e.thread, e.seg, rw(e.write), e.obj.Name, e.path)
						}
					}
				}
			}
			mode := "first wins"
			if inst.Harness == "H_C12_sched" {
				mode = "explored interleaving"
			}
			label := fmt.Sprintf("%s(%s) || %s(%s) ["+mode+", path %d]", c12OpNames[inst.Args[0]], langNames[inst.Args[1]], c12OpNames[inst.Args[2]], langNames[inst.Args[3]], pi)
			before := len(total.Races)
			decideRaces(solver, threads, label, total)
			if len(total.Races) > before {
				raceInst[label] = inst
				labels = append(labels, label)
			}
		}
	}
	c.Extra["race_queries"] = total.Queries
	c.Extra["race_verdicts_reused_for_identical_trace_shapes"] = total.CacheHits
	c.Extra["conflicting_access_pairs_examined"] = total.Conflicts
	c.Extra["conflicting_pairs_proved_ordered"] = total.OrderedBySW
	c.Extra["trace_events_after_coalescing"] = total.Events
	c.StructObl += total.Queries
	if len(total.UnknownSync) > 0 {
		c.Inconcl = append(c.Inconcl, "synchronisation operations without a happens-before model were met (treated as no-ops, may over-report): "+strings.Join(dedupe(total.UnknownSync), ","))
	}
	rawEvents := 0
	for _, inst := range c.Insts {
		for _, tr := range inst.Traces {
			for _, t := range tr {
				rawEvents += len(t)
			}
		}
	}
	c.Extra["thread_trace_events"] = rawEvents
	if rawEvents == 0 {
		c.Broken = append(c.Broken, "vacuous: no shared-memory or synchronisation event was extracted from any call (event extraction broken?)")
	}
	sort.Strings(total.Races)
	c.Extra["race_candidates"] = total.Races
	// native confirmation: both calls in two goroutines from a cold process, -race build
	if len(labels) > 0 {
		c.confirmRaces(labels, raceInst, total)
	}
	// fallback when the encoder could not follow some call: the call pairs themselves run natively
	// (two goroutines from a cold process, -race build), a reduced claim stated in the evidence
	ninc := 0
	for _, inst := range c.Insts {
		if inst.Inconclusive() {
			ninc++
		}
	}
	if ninc > 0 && len(c.Violations) == 0 {
		c.nativeRaceSweep()
	}
}

func (c *CheckRun) nativeRaceSweep() {
	rp := NewReplayer(c.TmpDir + "/sweep")
	osMkdirAll(c.TmpDir + "/sweep")
	rp.race = true
	runs, found := 0, 0
	nops := int64(len(c12OpNames))
	for _, lp := range [][2]int64{{2, 2}, {5, 5}, {0, 1}, {3, 3}} {
		for a := int64(0); a < nops; a++ {
			for b := a; b < nops; b++ {
				vals := map[string]interface{}{"goldenlang": int(lp[0])}
				if lp[0] == lp[1] && a == b {
					vals["extra"] = 1 // same call, same language: three cold-start callers
				}
				vec := &Vector{Harness: "H_C12_race", Args: []int64{a, lp[0], b, lp[1], 0}, Vals: vals, Property: "C12", Label: "data-race", Kind: "race"}
				raced, failures, out, err := rp.RunRace(vec, 3)
				runs++
				if err != nil {
					c.Inconcl = append(c.Inconcl, "native race sweep: "+err.Error())
					return
				}
				if raced || len(failures) > 0 {
					found++
					if found <= 4 {
						path := fmt.Sprintf("%s/replays/C12-sweep%d.json", evidenceDir(), found)
						osMkdirAll(evidenceDir() + "/replays")
						vec.Note = fmt.Sprintf("found by the native fallback sweep after the encoding was inconclusive: %s(%s) || %s(%s); race_detector=%v failures=%v; %s",
							c12OpNames[a], langNames[lp[0]], c12OpNames[b], langNames[lp[1]], raced, failures, firstLines(out, 8))
						writeJSON(path, vec)
						c.Violations = append(c.Violations, path)
					}
				}
			}
		}
	}
	c.Extra["native_race_sweep_pairs"] = runs
}

func (c *CheckRun) confirmRaces(labels []string, raceInst map[string]*Instance, total *raceResult) {
	rp := NewReplayer(c.TmpDir + "/race")
	osMkdirAll(c.TmpDir + "/race")
	rp.race = true
	seenArgs := map[string]bool{}
	confirmed := 0
	for _, l := range labels {
		inst := raceInst[l]
		k := fmt.Sprint(inst.Args)
		if seenArgs[k] || len(seenArgs) >= 8 {
			continue
		}
		seenArgs[k] = true
		vec := &Vector{Harness: "H_C12_race", Args: inst.Args, Vals: map[string]interface{}{"goldenlang": inst.Lang}, Property: "C12", Label: "data-race", Kind: "race", Note: l}
		raced, failures, out, err := rp.RunRace(vec, 12)
		if err != nil {
			c.Broken = append(c.Broken, "native race replay: "+err.Error())
			return
		}
		if raced || len(failures) > 0 {
			confirmed++
			if confirmed <= 6 {
				path := fmt.Sprintf("%s/replays/C12-%d.json", evidenceDir(), confirmed)
				osMkdirAll(evidenceDir() + "/replays")
				vec.Note = fmt.Sprintf("%s; native: race_detector=%v failures=%v; %s", l, raced, failures, firstLines(out, 12))
				writeJSON(path, vec)
				c.Violations = append(c.Violations, path)
				c.Samples = append(c.Samples, map[string]interface{}{"kind": "violation", "pair": l, "race_detector": raced, "failures": failures})
			}
		} else {
			c.Inconcl = append(c.Inconcl, "solver found an unordered conflicting pair that 12 native -race runs did not reproduce: "+l)
		}
	}
}
