package main

// Cooperative threads: interleaving exploration for C12.
//
// verifPar(f, g) runs the two closures as engine threads. Exactly one thread runs at a time;
// control changes hands only at scheduling points (sync.Once.Do, atomic operations, mutex
// operations, sync.Pool operations). At every scheduling point the scheduler decides — through
// the ordinary path-forking machinery, so every decision is a branch of the exploration — whether
// the running thread continues or the other one runs (bounded number of preemptions). All shared
// state lives in the one symbolic heap, so every explored interleaving is executed for real:
// result assertions inside the closures see schedule-dependent values, and the event log (with
// thread ids and the observed order of synchronisation operations) feeds the race analysis.

import (
	"fmt"
	"runtime"
)

type schedMsg struct {
	from int
	kind string // yield | done | panic
	val  interface{}
}

type thr struct {
	id      int
	resume  chan struct{}
	done    bool
	blocked func() bool
}

type scheduler struct {
	x       *Exec
	threads []*thr
	toSched chan schedMsg
	kill    chan struct{}
	preempt int
	maxPre  int
	cur     int
}

func (s *scheduler) yield(x *Exec) {
	t := s.threads[s.cur]
	s.toSched <- schedMsg{from: t.id, kind: "yield"}
	select {
	case <-t.resume:
	case <-s.kill:
		runtime.Goexit()
	}
}

// blockUntil parks the current thread until cond() holds (re-checked each time it is resumed).
func (s *scheduler) blockUntil(x *Exec, cond func() bool) {
	t := s.threads[s.cur]
	for !cond() {
		t.blocked = func() bool { return !cond() }
		s.yield(x)
		t.blocked = nil
	}
}

func (x *Exec) runPar(fns []Value, maxPre int) {
	if x.sched != nil {
		panic(unsupported("nested verifPar"))
	}
	s := &scheduler{x: x, toSched: make(chan schedMsg), kill: make(chan struct{}), maxPre: maxPre}
	x.sched = s
	x.usedNondet = true
	defer func() { x.sched = nil; x.thread = 0 }()
	for i, f := range fns {
		t := &thr{id: i, resume: make(chan struct{})}
		s.threads = append(s.threads, t)
		go func(t *thr, f Value) {
			select {
			case <-t.resume:
			case <-s.kill:
				return
			}
			defer func() {
				if r := recover(); r != nil {
					s.toSched <- schedMsg{from: t.id, kind: "panic", val: r}
				}
			}()
			x.callValue(f, nil)
			s.toSched <- schedMsg{from: t.id, kind: "done"}
		}(t, f)
	}
	killed := false
	defer func() {
		if !killed {
			close(s.kill)
		}
	}()
	// first thread to run
	s.cur = 0
	if len(s.threads) > 1 && !x.branch(x.fresh("sched_first", 0)) {
		s.cur = 1
	}
	for {
		t := s.threads[s.cur]
		x.thread = t.id
		t.resume <- struct{}{}
		msg := <-s.toSched
		switch msg.kind {
		case "panic":
			killed = true
			close(s.kill)
			panic(msg.val)
		case "done":
			t.done = true
		}
		var runnable []int
		alldone := true
		for _, u := range s.threads {
			if !u.done {
				alldone = false
				if u.blocked == nil || !u.blocked() {
					runnable = append(runnable, u.id)
				}
			}
		}
		if alldone {
			return
		}
		if len(runnable) == 0 {
			x.obligation(tFalse, "deadlock: every goroutine is blocked")
			panic(pathEnd{"panic", "deadlock"})
		}
		curRunnable := false
		for _, id := range runnable {
			if id == s.cur {
				curRunnable = true
			}
		}
		next := runnable[0]
		if curRunnable {
			next = s.cur
			if len(runnable) > 1 && s.preempt < s.maxPre {
				if x.branch(x.fresh("sched_preempt", 0)) {
					for _, id := range runnable {
						if id != s.cur {
							next = id
							break
						}
					}
					s.preempt++
				}
			}
		} else if len(runnable) > 1 {
			if !x.branch(x.fresh("sched_pick", 0)) {
				next = runnable[1]
			}
		}
		s.cur = next
	}
}

func (s *scheduler) String() string { return fmt.Sprintf("sched(cur=%d pre=%d)", s.cur, s.preempt) }
