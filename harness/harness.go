package bip39

// Verification harnesses for /verif (never part of the repository).
//
// This file is injected into package bip39 by overlay. It is used twice:
//   * by the symbolic engine (go/ssa): the verif* primitives are intercepted,
//     everything else — the harness functions, the BIP39 reference (spec*),
//     the nondeterministic reader — is executed symbolically like the code
//     under test;
//   * natively (go test -overlay): the verif* primitives read the solver's
//     assignment from a JSON vector, so a counterexample replays against the
//     real build.
//
// {{READER}} is replaced by the name of the package-level randomness source
// discovered in the repository (cryptoRander on the pinned tree).

import (
	"bytes"
	"crypto/rand"
	"crypto/sha256"
	"crypto/sha512"
	"encoding/json"
	"errors"
	"fmt"
	"io"
	"os"
	"path/filepath"
	"strconv"
	"strings"
	"sync"

	"golang.org/x/crypto/pbkdf2"
	"golang.org/x/text/unicode/norm"
	"golang.org/x/text/width"
)

// ---------------------------------------------------------------------------
// native side of the primitives

type verifVector struct {
	Harness string                     `json:"harness"`
	Args    []int64                    `json:"args"`
	Vals    map[string]json.RawMessage `json:"vals"`
}

type verifResult struct {
	Failures []string          `json:"failures"`
	Reached  []string          `json:"reached"`
	Observed map[string]string `json:"observed"`
	Panic    string            `json:"panic"`
	Assumed  bool              `json:"assume_failed"`
}

var (
	verifV   verifVector
	verifRes verifResult
)

type verifAssumeFailed struct{}

func verifGet(name string, into interface{}) bool {
	raw, ok := verifV.Vals[name]
	if !ok {
		return false
	}
	if err := json.Unmarshal(raw, into); err != nil {
		panic("verif: bad vector value for " + name + ": " + err.Error())
	}
	return true
}

func verifBytes(name string, n int) []byte {
	var xs []int
	verifGet(name, &xs)
	out := make([]byte, n)
	for i := 0; i < n && i < len(xs); i++ {
		out[i] = byte(xs[i])
	}
	return out
}

// verifBytesLen: byte slice whose length is a nondeterministic value in [0, max].
func verifBytesLen(name string, max int) []byte {
	var n int64
	verifGet(name+".len", &n)
	if n < 0 {
		return nil
	}
	return verifBytes(name, int(n))
}

func verifInt(name string) int {
	var v int64
	verifGet(name, &v)
	return int(v)
}

func verifIntRange(name string, lo, hi int) int {
	v := verifInt(name)
	if v < lo || v > hi {
		panic(verifAssumeFailed{})
	}
	return v
}

func verifBool(name string) bool {
	var v bool
	verifGet(name, &v)
	return v
}

func verifAssume(c bool) {
	if !c {
		panic(verifAssumeFailed{})
	}
}

var verifMu sync.Mutex

func verifAssert(c bool, label string) {
	if !c {
		verifMu.Lock()
		verifRes.Failures = append(verifRes.Failures, label)
		verifMu.Unlock()
	}
}

func verifReach(label string) {
	verifMu.Lock()
	verifRes.Reached = append(verifRes.Reached, label)
	verifMu.Unlock()
}

func verifObserve(name string, v string) {
	verifMu.Lock()
	defer verifMu.Unlock()
	if verifRes.Observed == nil {
		verifRes.Observed = map[string]string{}
	}
	verifRes.Observed[name] = v
}

func verifObserveInt(name string, v int) { verifObserve(name, strconv.Itoa(v)) }

func verifAnd(a, b bool) bool     { return a && b }
func verifOr(a, b bool) bool      { return a || b }
func verifImplies(a, b bool) bool { return !a || b }

var verifGoldenLists = map[int][]string{}

var verifGoldenFiles = []string{"0_chinese_simplified", "1_chinese_traditional", "2_english", "3_french", "4_italian", "5_japanese", "6_korean", "7_spanish", "8_czech", "9_portuguese"}

func verifGoldenList(lg int) []string {
	if l, ok := verifGoldenLists[lg]; ok {
		return l
	}
	if lg < 0 || lg >= len(verifGoldenFiles) {
		panic("verif: no golden list for language " + strconv.Itoa(lg))
	}
	dir := os.Getenv("VERIF_GOLDEN")
	if dir == "" {
		dir = "/verif/golden"
	}
	b, err := os.ReadFile(filepath.Join(dir, verifGoldenFiles[lg]+".txt"))
	if err != nil {
		panic(err)
	}
	l := strings.Split(strings.TrimSuffix(string(b), "\n"), "\n")
	verifGoldenLists[lg] = l
	return l
}

// verifGolden: word idx of the canonical list for lg.
func verifGolden(lg Language, idx int) string { return verifGoldenList(int(lg))[idx] }

// verifGoldenIndex: position of tok in the canonical list for lg.
func verifGoldenIndex(lg Language, tok string) (int, bool) {
	for i, w := range verifGoldenList(int(lg)) {
		if w == tok {
			return i, true
		}
	}
	return 0, false
}

// verifToken: an arbitrary token of a sentence in NFKD normal form: a canonical word,
// any other whitespace-free text, or the empty token (two adjacent separators).
func verifToken(name string, lg Language) string {
	var s string
	verifGet(name, &s)
	return s
}

// verifByteToken: a token of n ASCII lowercase letters (each letter arbitrary) that is no word of any
// list; unlike verifToken its text is visible byte by byte to code that inspects it.
func verifByteToken(name string, n int) string {
	var s string
	verifGet(name, &s)
	return s
}

// verifPre: an arbitrary string whose NFKD form is nf. Natively one of several spellings.
func verifPre(name string, nf string) string {
	form := 0
	var f int64
	if verifGet(name+".form", &f) {
		form = int(f)
	}
	return verifRespell(nf, form)
}

func verifRespell(s string, form int) string {
	switch form {
	case 1:
		return norm.NFC.String(s)
	case 2:
		return norm.NFD.String(s)
	case 3:
		return norm.NFKC.String(s)
	case 4:
		return strings.ReplaceAll(s, " ", "　")
	case 5:
		return width.Widen.String(s)
	case 6:
		return strings.ReplaceAll(s, " ", "\u00a0")
	case 7:
		return strings.Replace(strings.Replace(s, "a", "\u00aa", 1), "o", "\u00ba", 1)
	case 8:
		// only the last separator becomes a no-break space
		if i := strings.LastIndex(s, " "); i >= 0 {
			return s[:i] + "\u00a0" + s[i+1:]
		}
	case 9:
		return verifCompatTwins(s)
	}
	return s
}

var verifCompatTwinTab map[rune]rune

// verifCompatTwins replaces every character that has a compatibility twin (CJK compatibility
// ideographs, Kangxi / CJK radicals, Hangul compatibility jamo, half-width forms) whose NFKD form is
// that single character by the twin.
func verifCompatTwins(s string) string {
	if verifCompatTwinTab == nil {
		t := map[rune]rune{}
		for _, rg := range [][2]rune{{0x2E80, 0x2FDF}, {0x3038, 0x303A}, {0x3131, 0x318E}, {0xF900, 0xFAFF}, {0xFF61, 0xFFDC}, {0x2F800, 0x2FA1D}} {
			for r := rg[0]; r <= rg[1]; r++ {
				d := []rune(norm.NFKD.String(string(r)))
				if len(d) == 1 && d[0] != r {
					if _, ok := t[d[0]]; !ok {
						t[d[0]] = r
					}
				}
			}
		}
		verifCompatTwinTab = t
	}
	var sb strings.Builder
	for _, r := range s {
		if tw, ok := verifCompatTwinTab[r]; ok {
			sb.WriteRune(tw)
		} else {
			sb.WriteRune(r)
		}
	}
	return sb.String()
}

// verifSpell: the canonical word written in another Unicode-equivalent spelling.
// form: 0 NFKD (as stored), 1 NFC, 2 NFD, 3 NFKC, 5 full-width.
func verifSpell(word string, form int) string { return verifRespell(word, form) }

// verifOpaque: arbitrary text.
func verifOpaque(name string) string {
	var s string
	verifGet(name, &s)
	return s
}

func verifNFKD(s string) string { return norm.NFKD.String(s) }

// verifSeedSpec: the BIP39 seed function written directly from the standard.
func verifSeedSpec(password, salt string) []byte {
	return pbkdf2.Key([]byte(password), []byte(salt), 2048, 64, sha512.New)
}

func verifBytesEq(a, b []byte) bool { return bytes.Equal(a, b) }

// verifRandBytes: the bytes the default source delivered so far (engine: its symbolic stream).
var verifNativeRand *verifStream

func verifRandBytes() []byte {
	if verifNativeRand == nil {
		return nil
	}
	return verifNativeRand.buf[:verifNativeRand.pos]
}

// verifDefaultSource installs (natively) a recording stream in place of the OS source, but only
// if the package's source really is crypto/rand.Reader; under the engine it does nothing, the
// engine's model of crypto/rand.Reader already is a symbolic stream.
type verifStream struct {
	buf []byte
	pos int
}

func (s *verifStream) Read(p []byte) (int, error) {
	n := copy(p, s.buf[s.pos:])
	s.pos += n
	if n < len(p) {
		return n, io.ErrUnexpectedEOF
	}
	return n, nil
}

func verifDefaultSource() func() {
	if io.Reader({{READER}}) != io.Reader(rand.Reader) {
		return func() {}
	}
	var xs []int
	verifGet("rand", &xs)
	buf := make([]byte, 64)
	for i := range buf {
		if i < len(xs) {
			buf[i] = byte(xs[i])
		} else {
			buf[i] = byte(37*i + 11)
		}
	}
	verifNativeRand = &verifStream{buf: buf}
	// both the package's variable and crypto/rand.Reader itself become the recording stream, so code
	// that tests "is it still the OS source?" or calls crypto/rand.Read directly sees the same bytes
	old, oldOS := {{READER}}, rand.Reader
	rand.Reader = verifNativeRand
	{{READER}} = verifNativeRand
	return func() { {{READER}} = old; rand.Reader = oldOS }
}

// ---------------------------------------------------------------------------
// BIP39 reference, written bytewise from the standard (no math/big)

func specBit(b byte, i int) int { return int(b>>(7-uint(i))) & 1 }

// specIndices: entropy || first ENT/32 bits of SHA-256(entropy), cut into 11-bit groups, MSB first.
func specIndices(ent []byte) []int {
	h := sha256.Sum256(ent)
	n := len(ent)
	words := n * 3 / 4
	out := make([]int, words)
	for w := 0; w < words; w++ {
		v := 0
		for b := 0; b < 11; b++ {
			pos := w*11 + b
			var bit int
			if pos < n*8 {
				bit = specBit(ent[pos/8], pos%8)
			} else {
				q := pos - n*8
				bit = specBit(h[q/8], q%8)
			}
			v = v<<1 | bit
		}
		out[w] = v
	}
	return out
}

// specDecode: indices -> entropy bytes and trailing checksum bits.
func specDecode(idx []int) ([]byte, int) {
	n := len(idx)
	total := n * 11
	csBits := n / 3
	entBits := total - csBits
	ent := make([]byte, entBits/8)
	cs := 0
	for pos := 0; pos < total; pos++ {
		bit := (idx[pos/11] >> (10 - uint(pos%11))) & 1
		if pos < entBits {
			ent[pos/8] |= byte(bit << (7 - uint(pos%8)))
		} else {
			cs = cs<<1 | bit
		}
	}
	return ent, cs
}

func specValid(idx []int) bool {
	ent, cs := specDecode(idx)
	h := sha256.Sum256(ent)
	return int(h[0])>>(8-uint(len(idx)/3)) == cs
}

func specCountOK(n int) bool { return n == 12 || n == 15 || n == 18 || n == 21 || n == 24 }

func specSep(lg Language) string {
	if int(lg) == 5 { // Japanese
		return "　"
	}
	return " "
}

func specSentence(lg Language, ent []byte) string {
	idx := specIndices(ent)
	words := make([]string, len(idx))
	for i, v := range idx {
		words[i] = verifGolden(lg, v)
	}
	return strings.Join(words, specSep(lg))
}

func itoa(i int) string { return strconv.Itoa(i) }

// ---------------------------------------------------------------------------
// C01 / C05: encoding conforms; decoding recovers the entropy

func H_C01(lg Language, L int) {
	ent := verifBytes("ent", L)
	got, err := NewMnemonicByEntropy(ent, lg)
	verifAssert(err == nil, "err-nil")
	idx := specIndices(ent)
	sep := specSep(lg)
	words := make([]string, len(idx))
	for i, v := range idx {
		words[i] = verifGolden(lg, v)
	}
	want := strings.Join(words, sep)
	verifObserve("got", got)
	verifAssert(got == want, "sentence")
	gw := strings.Split(got, sep)
	verifAssert(len(gw) == L*3/4, "word-count")
	if len(gw) == len(words) {
		for i := range gw {
			verifAssert(gw[i] == words[i], "word-"+itoa(i))
		}
	}
	verifReach("end")
}

func H_C05(lg Language, L int) {
	ent := verifBytes("ent", L)
	ref := specSentence(lg, ent) // also gives the witness generator the reference-side word indices
	got, err := NewMnemonicByEntropy(ent, lg)
	verifAssume(err == nil)
	verifObserve("got", got)
	verifAssert(got == ref, "sentence-equals-reference")
	gw := strings.Split(got, specSep(lg))
	verifAssert(len(gw) == L*3/4, "word-count")
	idx := make([]int, len(gw))
	all := true
	for i, w := range gw {
		j, ok := verifGoldenIndex(lg, w)
		all = verifAnd(all, ok)
		idx[i] = j
	}
	verifAssert(all, "all-words-canonical")
	if len(gw) == L*3/4 {
		dec, _ := specDecode(idx)
		verifAssert(len(dec) == L, "decoded-length")
		if len(dec) == L {
			for i := 0; i < L; i++ {
				verifAssert(dec[i] == ent[i], "byte-"+itoa(i))
			}
		}
	}
	verifReach("end")
}

// ---------------------------------------------------------------------------
// C02: generated => accepted ; spec-valid => accepted

func H_C02_roundtrip(lg Language, L int) {
	ent := verifBytes("ent", L)
	m, err := NewMnemonicByEntropy(ent, lg)
	verifAssume(err == nil)
	verifObserve("mnemonic", m)
	e := CheckMnemonic(m, lg)
	verifAssert(e == nil, "generated-accepted")
	verifAssert(IsMnemonicValid(m, lg), "generated-valid")
	verifReach("end")
}

func H_C02_newmnemonic(lg Language, n int) {
	L := n + n/3
	r := &verifReader{stream: verifBytes("s", L), maxCalls: 1, whole: true}
	old := {{READER}}
	{{READER}} = r
	m, err := NewMnemonic(n, lg)
	{{READER}} = old
	verifAssume(err == nil)
	verifObserve("mnemonic", m)
	verifAssert(CheckMnemonic(m, lg) == nil, "generated-accepted")
	verifAssert(IsMnemonicValid(m, lg), "generated-valid")
	verifReach("end")
}

func H_C02_complete(lg Language, n int) {
	idx := make([]int, n)
	words := make([]string, n)
	for i := range idx {
		idx[i] = verifIntRange("w"+itoa(i), 0, 2047)
		words[i] = verifGolden(lg, idx[i])
	}
	verifAssume(specValid(idx))
	m := strings.Join(words, " ")
	verifObserve("mnemonic", m)
	verifAssert(CheckMnemonic(m, lg) == nil, "valid-accepted")
	verifAssert(IsMnemonicValid(m, lg), "valid-isvalid")
	verifReach("end")
}

// ---------------------------------------------------------------------------
// C03 / C15: soundness of validation and error kinds, over token sequences

func specWellFormed(lg Language, toks []string) (member bool, valid bool) {
	n := len(toks)
	idx := make([]int, n)
	member = true
	for i, t := range toks {
		j, ok := verifGoldenIndex(lg, t)
		member = verifAnd(member, ok)
		idx[i] = j
	}
	if !specCountOK(n) {
		return member, false
	}
	return member, verifAnd(member, specValid(idx))
}

// verifTokenNE: an arbitrary non-empty token.
func verifTokenNE(name string, lg Language) string {
	t := verifToken(name, lg)
	verifAssume(t != "")
	return t
}

// H_C03: n non-empty tokens; gap < 0: joined by single spaces; gap = k in 0..n: one extra
// separator before token k (k = 0 leading, k = n trailing, otherwise a doubled separator).
// The reference speaks about the whitespace-separated tokens, i.e. the n non-empty ones.
func H_C03(lg Language, n int, gap int) {
	toks := make([]string, n)
	for i := range toks {
		toks[i] = verifTokenNE("t"+itoa(i), lg)
	}
	parts := make([]string, 0, n+1)
	for i := 0; i <= n; i++ {
		if i == gap {
			parts = append(parts, "")
		}
		if i < n {
			parts = append(parts, toks[i])
		}
	}
	nf := strings.Join(parts, " ")
	raw := verifPre("raw", nf)
	verifObserve("raw", raw)
	err := CheckMnemonic(raw, lg)
	ok := IsMnemonicValid(raw, lg)
	verifAssert(ok == (err == nil), "isvalid-iff-nil")
	member, valid := specWellFormed(lg, toks)
	verifAssert(verifImplies(err == nil, valid), "accepted-implies-wellformed")
	if gap < 0 {
		// error kinds (C15) and completeness are stated for sentences whose only defect is the named one
		if !specCountOK(n) {
			verifAssert(errors.Is(err, ErrWordLen), "count-defect-gives-ErrWordLen")
		} else {
			verifAssert(verifImplies(verifAnd(member, !valid), errors.Is(err, ErrChecksumIncorrect)), "checksum-defect-gives-ErrChecksumIncorrect")
			if err != nil {
				named := false
				msg := err.Error()
				for _, t := range toks {
					_, isM := verifGoldenIndex(lg, t)
					named = verifOr(named, verifAnd(!isM, strings.Contains(msg, t)))
				}
				verifAssert(verifImplies(!member, verifAnd(verifAnd(!errors.Is(err, ErrWordLen), !errors.Is(err, ErrChecksumIncorrect)), named)), "unknown-word-gives-other-error-naming-it")
			}
		}
		verifAssert(verifImplies(valid, err == nil), "wellformed-accepted")
	}
	verifReach("end")
}

// counting corollary: for fixed first n-1 words, two different last words with the same
// entropy bits are never both accepted.
// H_C03_bytes: n-1 canonical words (indices symbolic) and, at position pos, a non-list token of L
// arbitrary lowercase letters: whatever the letters are, the sentence is rejected with the error that
// names the token (C03 membership, C15 kind). Decides code that hashes, measures or scans token text.
// sym = 1: the other words have symbolic indices; sym = 0: they are the fixed words 97*i mod 2048
// (keeps code that scans every word's text inside the encoder's reach).
func H_C03_bytes(lg Language, n int, L int, pos int, sym int) {
	words := make([]string, n)
	for i := range words {
		if i == pos {
			words[i] = verifByteToken("b0", L)
		} else if sym == 1 {
			words[i] = verifGolden(lg, verifIntRange("w"+itoa(i), 0, 2047))
		} else {
			words[i] = verifGolden(lg, (97*i)%2048)
		}
	}
	m := strings.Join(words, " ")
	verifObserve("mnemonic", m)
	err := CheckMnemonic(m, lg)
	verifAssert(err != nil, "non-list-token-rejected")
	verifAssert(!IsMnemonicValid(m, lg), "non-list-token-invalid")
	if err != nil {
		verifAssert(verifAnd(!errors.Is(err, ErrWordLen), !errors.Is(err, ErrChecksumIncorrect)), "unknown-token-gives-other-error")
		verifAssert(strings.Contains(err.Error(), words[pos]), "error-names-the-token")
	}
	verifReach("end")
}

func H_C03_count(lg Language, n int) {
	words := make([]string, n)
	for i := 0; i < n-1; i++ {
		words[i] = verifGolden(lg, verifIntRange("w"+itoa(i), 0, 2047))
	}
	a := verifIntRange("a", 0, 2047)
	b := verifIntRange("b", 0, 2047)
	cs := uint(n / 3)
	verifAssume(a != b)
	verifAssume(a>>cs == b>>cs)
	words[n-1] = verifGolden(lg, a)
	m1 := strings.Join(words, " ")
	words[n-1] = verifGolden(lg, b)
	m2 := strings.Join(words, " ")
	verifObserve("m1", m1)
	verifObserve("m2", m2)
	e1 := CheckMnemonic(m1, lg)
	e2 := CheckMnemonic(m2, lg)
	verifAssert(!verifAnd(e1 == nil, e2 == nil), "two-last-words-same-entropy-both-accepted")
	verifReach("end")
}

// ---------------------------------------------------------------------------
// C04 / C11: seed derivation

func H_C04() {
	m := verifOpaque("m")
	p := verifOpaque("p")
	got := MnemonicToSeed(m, p)
	want := verifSeedSpec(verifNFKD(m), "mnemonic"+verifNFKD(p))
	verifAssert(len(got) == 64, "len-64")
	verifAssert(verifBytesEq(got, want), "seed-equals-spec")
	got2 := MnemonicToSeed(m, p)
	if len(got) > 0 && len(got2) > 0 {
		verifAssert(&got[0] != &got2[0], "fresh-slice")
	}
	verifReach("end")
}

// the seed depends on the pair (mnemonic, passphrase), not on their concatenation: two pairs that
// split the same text differently, derived one after the other, each give their own reference value
func H_C04_split() {
	a := verifOpaque("a")
	b := verifOpaque("b")
	m1, p1 := a, "mnemonic"+b
	m2, p2 := a+"mnemonic", b
	s1 := MnemonicToSeed(m1, p1)
	s2 := MnemonicToSeed(m2, p2)
	s3 := MnemonicToSeed(m1, p1)
	verifAssert(verifBytesEq(s1, verifSeedSpec(verifNFKD(m1), "mnemonic"+verifNFKD(p1))), "first-split-seed-equals-spec")
	verifAssert(verifBytesEq(s2, verifSeedSpec(verifNFKD(m2), "mnemonic"+verifNFKD(p2))), "second-split-seed-equals-spec")
	verifAssert(verifBytesEq(s3, verifSeedSpec(verifNFKD(m1), "mnemonic"+verifNFKD(p1))), "repeated-seed-equals-spec")
	// empty components
	e1 := MnemonicToSeed("", "mnemonic"+b)
	e2 := MnemonicToSeed("mnemonic", b)
	verifAssert(verifBytesEq(e1, verifSeedSpec("", "mnemonic"+verifNFKD("mnemonic"+b))), "empty-mnemonic-seed-equals-spec")
	verifAssert(verifBytesEq(e2, verifSeedSpec("mnemonic", "mnemonic"+verifNFKD(b))), "mnemonic-word-seed-equals-spec")
	verifReach("end")
}

func H_C11() {
	nm := verifOpaque("nm")
	np := verifOpaque("np")
	m1 := verifPre("m1", verifNFKD(nm))
	m2 := verifPre("m2", verifNFKD(nm))
	p1 := verifPre("p1", verifNFKD(np))
	p2 := verifPre("p2", verifNFKD(np))
	s1 := MnemonicToSeed(m1, p1)
	s2 := MnemonicToSeed(m2, p2)
	verifAssert(verifBytesEq(s1, s2), "equal-nfkd-equal-seed")
	// the most direct equivalent pair: a text and its own normal form
	s3 := MnemonicToSeed(nm, np)
	s4 := MnemonicToSeed(verifNFKD(nm), verifNFKD(np))
	verifAssert(verifBytesEq(s3, s4), "text-and-its-normal-form-equal-seed")
	verifAssert(verifBytesEq(s3, s1), "raw-and-respelled-equal-seed")
	verifReach("end")
}

// C11(b): a sentence of canonical words, respelled word by word and with either separator.
func H_C11_spelled(lg Language, n int, form int) {
	words := make([]string, n)
	sp := make([]string, n)
	for i := range words {
		words[i] = verifGolden(lg, verifIntRange("w"+itoa(i), 0, 2047))
		sp[i] = verifSpell(words[i], form)
	}
	sep := " "
	if verifBool("idsp") {
		sep = "　"
	}
	base := strings.Join(words, " ")
	alt := strings.Join(sp, sep)
	p := verifOpaque("p")
	s1 := MnemonicToSeed(base, p)
	s2 := MnemonicToSeed(alt, p)
	verifObserve("alt", alt)
	verifAssert(verifBytesEq(s1, s2), "respelled-same-seed")
	verifReach("end")
}

// ---------------------------------------------------------------------------
// C10: validation invariant under equivalent spellings

func verifVerdict(err error) int {
	switch {
	case err == nil:
		return 0
	case errors.Is(err, ErrWordLen):
		return 1
	case errors.Is(err, ErrChecksumIncorrect):
		return 2
	}
	return 3
}

func H_C10_pre(lg Language, n int) {
	toks := make([]string, n)
	for i := range toks {
		toks[i] = verifToken("t"+itoa(i), lg)
	}
	nf := strings.Join(toks, " ")
	r1 := verifPre("r1", nf)
	r2 := verifPre("r2", nf)
	e1 := CheckMnemonic(r1, lg)
	e2 := CheckMnemonic(r2, lg)
	verifAssert((e1 == nil) == (e2 == nil), "same-acceptance")
	verifAssert(verifVerdict(e1) == verifVerdict(e2), "same-verdict")
	verifReach("end")
}

func H_C10_spelled(lg Language, n int, form int) {
	idx := make([]int, n)
	sp := make([]string, n)
	for i := range idx {
		idx[i] = verifIntRange("w"+itoa(i), 0, 2047)
		sp[i] = verifSpell(verifGolden(lg, idx[i]), form)
	}
	verifAssume(specValid(idx))
	sep := " "
	if verifBool("idsp") {
		sep = "　"
	}
	m := strings.Join(sp, sep)
	verifObserve("mnemonic", m)
	verifAssert(CheckMnemonic(m, lg) == nil, "respelled-valid-accepted")
	verifReach("end")
}

// ---------------------------------------------------------------------------
// C06 / C07 / C09: the randomness source

var errVerifOther = errors.New("verif: injected source failure")

// verifTempErr: a failure that describes itself as temporary (like EINTR/EAGAIN): still a failure.
type verifTempErr struct{}

func (verifTempErr) Error() string   { return "verif: injected temporary source failure" }
func (verifTempErr) Temporary() bool { return true }
func (verifTempErr) Timeout() bool   { return true }

// verifReader delivers a stream in nondeterministic fragments with nondeterministic failures.
type verifReader struct {
	stream   []byte
	pos      int
	calls    int
	maxCalls int
	whole    bool // deliver everything asked for, never fail
	trickle  bool // one byte per read, after `idle` reads that deliver nothing
	idle     int
	stuck    int // > 0: after an optional first short delivery every read fails with this kind, nothing delivered
}

func stuckErrKind(kind int) error {
	switch kind {
	case 1:
		return io.EOF
	case 2:
		return io.ErrUnexpectedEOF
	case 4:
		return verifTempErr{}
	}
	return errVerifOther
}

func (r *verifReader) Read(p []byte) (int, error) {
	c := r.calls
	r.calls++
	if r.trickle {
		if c < r.idle || len(p) == 0 {
			return 0, nil
		}
		verifAssume(r.pos < len(r.stream))
		p[0] = r.stream[r.pos]
		r.pos++
		return 1, nil
	}
	if r.stuck > 0 {
		verifAssume(c < r.maxCalls)
		if c == 0 && len(p) > 0 {
			k := verifIntRange("k0", 0, len(p)-1)
			if k > 0 {
				copy(p[:k], r.stream[:k])
				r.pos += k
				return k, nil
			}
		}
		return 0, stuckErrKind(r.stuck)
	}
	if r.whole {
		verifAssume(r.pos+len(p) <= len(r.stream))
		n := copy(p, r.stream[r.pos:r.pos+len(p)])
		r.pos += n
		return n, nil
	}
	verifAssume(c < r.maxCalls)
	k := verifIntRange("k"+itoa(c), 0, len(p))
	kind := verifIntRange("kind"+itoa(c), 0, 4)
	verifAssume(r.pos+k <= len(r.stream))
	copy(p[:k], r.stream[r.pos:r.pos+k])
	r.pos += k
	switch kind {
	case 0:
		return k, nil
	case 1:
		return k, io.EOF
	case 2:
		return k, io.ErrUnexpectedEOF
	case 4:
		return k, verifTempErr{}
	}
	return k, errVerifOther
}

func H_C06(lg Language, n int, R int) {
	L := n + n/3
	stream := verifBytes("s", L+4)
	r := &verifReader{stream: stream, maxCalls: R}
	old := {{READER}}
	{{READER}} = r
	got, err := NewMnemonic(n, lg)
	verifAssert(io.Reader({{READER}}) == io.Reader(r), "call-does-not-replace-the-source")
	{{READER}} = old
	verifObserve("got", got)
	verifObserveInt("delivered", r.pos)
	if err == nil {
		verifAssert(r.pos >= L, "success-needs-all-bytes")
		verifAssert(got == specSentence(lg, stream[:L]), "sentence-from-stream-prefix")
		verifAssert(len(strings.Split(got, specSep(lg))) == n, "n-words")
	} else {
		verifAssert(got == "", "error-gives-empty-string")
		verifAssert(r.pos < L, "error-only-if-source-short")
	}
	verifReach("end")
}

// a source that gets stuck: an optional first short delivery (k0 < 4n/3 bytes), then every further read
// fails the same way and delivers nothing, for up to R reads: however persistent the caller is, the
// result is an error and the empty string.
func H_C06_stuck(lg Language, n int, R int) {
	L := n + n/3
	stream := verifBytes("s", L)
	r := &verifReader{stream: stream, maxCalls: R, stuck: verifIntRange("kind", 1, 4)}
	old := {{READER}}
	{{READER}} = r
	got, err := NewMnemonic(n, lg)
	{{READER}} = old
	verifObserve("got", got)
	verifObserveInt("delivered", r.pos)
	verifAssert(err != nil, "stuck-source-gives-error")
	verifAssert(got == "", "error-gives-empty-string")
	verifReach("end")
}

// the longest fragmentation: one byte per read, preceded by z reads that deliver nothing
// (4n/3 + z Read calls; the fragment sizes are fixed, the delivered bytes are symbolic)
func H_C06_trickle(lg Language, n int, z int) {
	L := n + n/3
	stream := verifBytes("s", L+2)
	r := &verifReader{stream: stream, trickle: true, idle: z}
	old := {{READER}}
	{{READER}} = r
	got, err := NewMnemonic(n, lg)
	{{READER}} = old
	verifObserve("got", got)
	verifObserveInt("delivered", r.pos)
	verifAssert(err == nil, "trickling-source-succeeds")
	verifAssert(r.pos == L, "exactly-4n/3-bytes-consumed")
	verifAssert(got == specSentence(lg, stream[:L]), "sentence-from-stream-prefix")
	verifReach("end")
}

func H_C07(lg Language, n int) {
	verifAssert(io.Reader({{READER}}) == io.Reader(rand.Reader), "source-is-crypto-rand-reader")
	restore := verifDefaultSource()
	got, err := NewMnemonic(n, lg)
	restore()
	L := n + n/3
	rb := verifRandBytes()
	verifAssert(err == nil, "no-error")
	verifAssert(len(rb) == L, "draws-exactly-4n/3-bytes-from-the-os-source")
	if err == nil && len(rb) == L {
		verifAssert(got == specSentence(lg, rb), "output-is-function-of-source-bytes-only")
	}
	verifAssert(io.Reader({{READER}}) == io.Reader(rand.Reader), "source-unchanged-after-call")
	verifReach("end")
}

// C09(a): every entropy length. n is the (symbolic) length.
func H_C09_entropy(lg Language) {
	ent := verifBytesLen("ent", 40)
	n := len(ent)
	got, err := NewMnemonicByEntropy(ent, lg)
	okLen := n == 16 || n == 20 || n == 24 || n == 28 || n == 32
	verifObserve("got", got)
	if okLen {
		verifAssert(err == nil, "valid-length-accepted")
		verifAssert(got != "", "valid-length-nonempty")
	} else {
		verifAssert(err != nil, "invalid-length-rejected")
		verifAssert(errors.Is(err, ErrEntropyLen), "invalid-length-ErrEntropyLen")
		verifAssert(got == "", "invalid-length-empty-string")
	}
	verifReach("end")
}

// C09(a'): the gate alone over every int64 length (slice contents never read on reject).
func H_C09_entropy_any(lg Language) {
	ent := verifBytesLen("ent", -1)
	n := len(ent)
	got, err := NewMnemonicByEntropy(ent, lg)
	okLen := n == 16 || n == 20 || n == 24 || n == 28 || n == 32
	verifAssert((err == nil) == okLen, "accept-iff-five-lengths")
	if err != nil {
		verifAssert(errors.Is(err, ErrEntropyLen), "invalid-length-ErrEntropyLen")
		verifAssert(got == "", "invalid-length-empty-string")
	} else {
		verifAssert(got != "", "valid-length-nonempty")
	}
	verifReach("end")
}

func H_C09_count(lg Language) {
	n := verifInt("n")
	r := &verifReader{stream: verifBytes("s", 32), whole: true}
	old := {{READER}}
	{{READER}} = r
	got, err := NewMnemonic(n, lg)
	{{READER}} = old
	okN := n == 12 || n == 15 || n == 18 || n == 21 || n == 24
	verifObserve("got", got)
	verifAssert((err == nil) == okN, "accept-iff-five-counts")
	if err != nil {
		verifAssert(errors.Is(err, ErrWordLen), "invalid-count-ErrWordLen")
		verifAssert(got == "", "invalid-count-empty-string")
		verifAssert(r.calls == 0, "invalid-count-consumes-no-randomness")
	} else {
		verifAssert(got != "", "valid-count-nonempty")
	}
	verifReach("end")
}

// ---------------------------------------------------------------------------
// C16: names

var verifLangNames = []string{"ChineseSimplified", "ChineseTraditional", "English", "French", "Italian", "Japanese", "Korean", "Spanish", "Czech", "Portuguese"}

func H_C16() {
	// the identifiers really are the constants with these values
	verifAssert(ChineseSimplified == 0 && ChineseTraditional == 1 && English == 2 && French == 3 && Italian == 4 &&
		Japanese == 5 && Korean == 6 && Spanish == 7 && Czech == 8 && Portuguese == 9, "constant-values")
	i := verifInt("i")
	s := Language(i).String()
	verifObserve("name", s)
	if i >= 0 && i <= 9 {
		verifAssert(s == verifLangNames[i], "supported-language-has-its-identifier")
	} else {
		verifAssert(s == "Language("+strconv.Itoa(i)+")", "other-value-is-Language(N)")
	}
	verifReach("end")
}

// ---------------------------------------------------------------------------
// C14: no panics. One harness per exported entry point; the engine checks every
// panic obligation on every path.

func H_C14_String() {
	_ = Language(verifInt("i")).String()
	verifReach("end")
}

// verifLangSel: sel in 0..9 = that supported language; otherwise an arbitrary unsupported value.
func verifLangSel(sel int) Language {
	if sel >= 0 && sel <= 9 {
		return Language(sel)
	}
	lg := verifInt("lg")
	verifAssume(lg < 0 || lg > 9)
	return Language(lg)
}

func H_C14_Entropy(sel int) {
	lg := verifLangSel(sel)
	ent := verifBytesLen("ent", 40)
	_, _ = NewMnemonicByEntropy(ent, lg)
	verifReach("end")
}

func H_C14_New(sel int, R int) {
	lg := verifLangSel(sel)
	n := verifInt("n")
	r := &verifReader{stream: verifBytes("s", 36), maxCalls: R}
	old := {{READER}}
	{{READER}} = r
	_, _ = NewMnemonic(n, lg)
	{{READER}} = old
	verifReach("end")
}

func H_C14_Check(sel int, n int) {
	lg := verifLangSel(sel)
	toks := make([]string, n)
	for i := range toks {
		toks[i] = verifToken("t"+itoa(i), Language(verifGoldenLang()))
	}
	raw := verifPre("raw", strings.Join(toks, " "))
	_ = CheckMnemonic(raw, lg)
	_ = IsMnemonicValid(raw, lg)
	verifReach("end")
}

// hostile token texts: invalid UTF-8 of several shapes, long runs, NUL, surrogate and overlong encodings
var hostileTokens = []string{
	strings.Repeat("\x80", 40),
	"\xff",
	"\xe3\x81",
	strings.Repeat("\xc0\xaf", 20),
	"\xed\xa0\x80\xed\xb0\x80",
	"ab\x00cd" + strings.Repeat("\xbf", 64),
	strings.Repeat("\xf4\x90\x80\x80", 9),
	"\xe3\x81\x82" + strings.Repeat("\x80", 33),
}

// H_C14_hostile: n-1 canonical words (symbolic indices) and one hostile byte string as a token at pos;
// the raw text goes to every function that takes a mnemonic. Only the absence of panics is asserted
// (plus: such a sentence is never accepted).
func H_C14_hostile(lg Language, n int, pos int, kind int) {
	words := make([]string, n)
	for i := range words {
		if i == pos {
			words[i] = hostileTokens[kind]
		} else {
			words[i] = verifGolden(lg, verifIntRange("w"+itoa(i), 0, 2047))
		}
	}
	m := strings.Join(words, " ")
	err := CheckMnemonic(m, lg)
	verifAssert(err != nil, "hostile-token-rejected")
	verifAssert(!IsMnemonicValid(m, lg), "hostile-token-invalid")
	if err != nil {
		_ = err.Error()
	}
	verifReach("end")
}

func H_C14_Seed() {
	_ = MnemonicToSeed(verifOpaque("m"), verifOpaque("p"))
	verifReach("end")
}

// verifGoldenLang: the language the engine instance interns as 0..2047 (native: from the vector).
func verifGoldenLang() int {
	var v int64
	verifGet("goldenlang", &v)
	return int(v)
}

// ---------------------------------------------------------------------------
// C08: the lists, observed through the API

func H_C08(lg Language) {
	i := verifIntRange("i", 0, 2047)
	// route index -> word: first word of the sentence for entropy with top 11 bits = i
	ent := make([]byte, 16)
	ent[0] = byte(i >> 3)
	ent[1] = byte(i<<5) | byte(verifIntRange("pad", 0, 31))
	rest := verifBytes("rest", 14)
	copy(ent[2:], rest)
	m, err := NewMnemonicByEntropy(ent, lg)
	verifAssume(err == nil)
	ws := strings.Split(m, specSep(lg))
	verifAssert(len(ws) == 12, "twelve-words")
	if len(ws) == 12 {
		verifObserve("word", ws[0])
		verifAssert(ws[0] == verifGolden(lg, i), "emitted-word-is-canonical")
		j, ok := verifGoldenIndex(lg, ws[0])
		verifAssert(verifAnd(ok, j == i), "emitted-word-index")
		verifAssert(ws[0] != "", "non-empty")
		verifAssert(verifNFKD(ws[0]) == ws[0], "nfkd-stable")
	}
	// route word -> index: the sentence validates, so the map sends the word to index i
	verifAssert(CheckMnemonic(m, lg) == nil, "canonical-sentence-validates")
	verifReach("end")
}

// ---------------------------------------------------------------------------
// C13: history independence and no mutation

func verifWarm(l int) {
	if l >= 0 && l <= 9 {
		_ = CheckMnemonic("x x x x x x x x x x x x", Language(l))
	}
}

func verifWarmN(W int) {
	for i := 1; i <= W; i++ {
		verifWarm(verifIntRange("warm"+itoa(i), -1, 10))
	}
}

func H_C13_entropy(lg Language, L int, W int) {
	verifWarmN(W)
	// the caller's entropy is a sub-slice of a larger buffer (spare capacity behind it)
	buf := verifBytes("ent", L+4)
	ent := buf[:L]
	keep := make([]byte, L+4)
	copy(keep, buf)
	got, err := NewMnemonicByEntropy(ent, lg)
	verifAssert(err == nil, "err-nil")
	verifAssert(got == specSentence(lg, keep[:L]), "result-is-history-free-spec-value")
	for i := 0; i < L+4; i++ {
		verifAssert(buf[i] == keep[i], "caller-memory-unmodified-"+itoa(i))
	}
	keep = keep[:L]
	// the caller reuses its buffer: overwrite it in place and call again (no call in between)
	ent2 := verifBytes("ent2", L)
	copy(ent, ent2)
	got3, _ := NewMnemonicByEntropy(ent, lg)
	verifAssert(got3 == specSentence(lg, ent2), "result-after-caller-reuses-buffer")
	// a further call with other arguments in a fresh slice
	ent4 := verifBytes("ent4", L)
	got4, _ := NewMnemonicByEntropy(ent4, lg)
	verifAssert(got == specSentence(lg, keep), "earlier-result-unaltered")
	verifAssert(got4 == specSentence(lg, ent4), "later-result")
	// native reproduction aid (0 rounds under the engine): many more calls, then the early results again
	if n := verifStressRounds(); n > 0 {
		first := got
		e := make([]byte, L)
		for r := 0; r < n; r++ {
			for i := range e {
				e[i] = byte(r*31 + i*7)
			}
			s, _ := NewMnemonicByEntropy(e, lg)
			if r%97 == 0 {
				verifAssert(s == specSentence(lg, e), "result-in-a-long-history")
			}
		}
		verifAssert(first == specSentence(lg, keep), "early-result-unaltered-after-a-long-history")
		verifAssert(got4 == specSentence(lg, ent4), "later-result-unaltered-after-a-long-history")
	}
	verifReach("end")
}

// two validations in sequence: the second verdict must be the reference verdict whatever the
// first call did (early error returns included)
func H_C13_seq(lg Language, n1 int, n2 int) {
	t1 := make([]string, n1)
	for i := range t1 {
		t1[i] = verifToken("a"+itoa(i), lg)
	}
	t2 := make([]string, n2)
	for i := range t2 {
		t2[i] = verifGolden(lg, verifIntRange("b"+itoa(i), 0, 2047))
	}
	r1 := verifPre("r1", strings.Join(t1, " "))
	r2 := verifPre("r2", strings.Join(t2, " "))
	_ = CheckMnemonic(r1, lg)
	e2 := CheckMnemonic(r2, lg)
	_, valid := specWellFormed(lg, t2)
	verifAssert((e2 == nil) == valid, "second-verdict-is-history-free-spec-value")
	ok3 := IsMnemonicValid(r2, lg)
	verifAssert(ok3 == valid, "third-verdict-is-history-free-spec-value")
	verifReach("end")
}

// the same sentence validated under one language and then under another (an auto-detection loop):
// each verdict is the reference verdict for its own language
func H_C13_xlang(lgA Language, lgB Language, n int) {
	idx := make([]int, n)
	words := make([]string, n)
	for i := range idx {
		idx[i] = verifIntRange("w"+itoa(i), 0, 2047)
		words[i] = verifGolden(lgA, idx[i])
	}
	// the sentence is not also a sentence of the second language (a handful of words are shared
	// between lists; sentences made of shared words only are outside this harness)
	_, firstInB := verifGoldenIndex(lgB, words[0])
	verifAssume(!firstInB)
	m := strings.Join(words, " ")
	verifObserve("mnemonic", m)
	eA := CheckMnemonic(m, lgA)
	wantA := 2
	if specValid(idx) {
		wantA = 0
	}
	verifAssert(verifVerdict(eA) == wantA, "first-language-verdict")
	eB := CheckMnemonic(m, lgB)
	memberB, validB := specWellFormed(lgB, words)
	verifAssert((eB == nil) == validB, "second-language-accepts-iff-wellformed-in-that-language")
	verifAssert(verifImplies(!memberB, verifAnd(eB != nil, verifAnd(!errors.Is(eB, ErrWordLen), !errors.Is(eB, ErrChecksumIncorrect)))), "second-language-unknown-word-error")
	eA2 := CheckMnemonic(m, lgA)
	verifAssert(verifVerdict(eA2) == wantA, "first-language-verdict-again")
	verifReach("end")
}

// a generated sentence validated after an arbitrary earlier validation
func H_C13_seq_gen(lg Language, n1 int, L int) {
	t1 := make([]string, n1)
	for i := range t1 {
		t1[i] = verifToken("a"+itoa(i), lg)
	}
	_ = CheckMnemonic(verifPre("r1", strings.Join(t1, " ")), lg)
	ent := verifBytes("ent", L)
	m, err := NewMnemonicByEntropy(ent, lg)
	verifAssume(err == nil)
	verifAssert(m == specSentence(lg, ent), "encode-after-validation-is-spec-value")
	verifAssert(CheckMnemonic(m, lg) == nil, "generated-accepted-after-earlier-validation")
	verifReach("end")
}

func H_C13_check(lg Language, n int, W int) {
	verifWarmN(W)
	toks := make([]string, n)
	for i := range toks {
		toks[i] = verifTokenNE("t"+itoa(i), lg)
	}
	raw := verifPre("raw", strings.Join(toks, " "))
	e1 := CheckMnemonic(raw, lg)
	_, valid := specWellFormed(lg, toks)
	verifAssert((e1 == nil) == valid, "verdict-is-history-free-spec-value")
	e2 := CheckMnemonic(raw, lg)
	verifAssert(verifVerdict(e1) == verifVerdict(e2), "repeat-call-same-verdict")
	verifReach("end")
}

func H_C13_seed() {
	verifWarm(verifIntRange("warm0", -1, 10))
	m := verifOpaque("m")
	p := verifOpaque("p")
	s1 := MnemonicToSeed(m, p)
	want := verifSeedSpec(verifNFKD(m), "mnemonic"+verifNFKD(p))
	verifAssert(verifBytesEq(s1, want), "seed-equals-spec")
	// the caller wipes its copy; deriving again must give the full seed again
	for i := range s1 {
		s1[i] = 0
	}
	s1b := MnemonicToSeed(m, p)
	verifAssert(verifBytesEq(s1b, want), "seed-after-caller-wiped-earlier-result")
	s1 = s1b
	_ = MnemonicToSeed(verifOpaque("m2"), verifOpaque("p2"))
	verifWarm(verifIntRange("warm9", -1, 10))
	verifAssert(verifBytesEq(s1, want), "earlier-seed-unaltered-by-later-calls")
	verifReach("end")
}

// ---------------------------------------------------------------------------
// C12: concurrency. verifC12Op is one exported call with its own reference assertion.
// H_C12_pair runs two of them in sequence under the engine, which extracts the shared-memory
// events of each and decides with the solver whether the two calls, run concurrently from a cold
// start, can have an unordered conflicting access pair (DESIGN §7 C12). H_C12_race is the native
// replay: the same two calls in two goroutines released together, built with -race.

func verifMark(label string) {}

func verifC12Op(op int, lg Language, sfx string, sym int) {
	word := func(i int) int {
		if sym != 0 {
			return verifIntRange("w"+sfx+itoa(i), 0, 2047)
		}
		return (611*i + 97*len(sfx) + 3*int(sfx[0])) % 2048
	}
	switch op {
	case 0, 1: // validation of a sentence of canonical words
		idx := make([]int, 12)
		words := make([]string, 12)
		for i := range idx {
			idx[i] = word(i)
			words[i] = verifGolden(lg, idx[i])
		}
		m := strings.Join(words, " ")
		valid := specValid(idx)
		if op == 0 {
			err := CheckMnemonic(m, lg)
			want := 2 // all words canonical: the only possible defect is the checksum
			if valid {
				want = 0
			}
			verifAssert(verifVerdict(err) == want, "concurrent-check-equals-reference-"+sfx)
		} else {
			verifAssert(IsMnemonicValid(m, lg) == valid, "concurrent-isvalid-equals-reference-"+sfx)
		}
	case 2:
		var ent []byte
		if sym != 0 {
			ent = verifBytes("e"+sfx, 16)
		} else {
			ent = []byte{0, 1, 2, 3, 250, 251, 252, 253, 9, 8, 7, 6, 5, 4, sfx[0], 255}
		}
		got, err := NewMnemonicByEntropy(ent, lg)
		verifAssert(verifAnd(err == nil, got == specSentence(lg, ent)), "concurrent-encode-equals-reference-"+sfx)
	case 3:
		got, err := NewMnemonic(12, lg)
		verifAssert(verifAnd(err == nil, len(strings.Split(got, specSep(lg))) == 12), "concurrent-newmnemonic-ok-"+sfx)
	case 4:
		m, p := "légal winner thank year wave sausage worth useful legal winner thank yellow"+sfx, "ＴＲＥＺＯＲ"
		if sym != 0 {
			m = verifOpaque("m" + sfx)
			p = verifOpaque("p" + sfx)
		}
		verifAssert(verifBytesEq(MnemonicToSeed(m, p), verifSeedSpec(verifNFKD(m), "mnemonic"+verifNFKD(p))), "concurrent-seed-equals-reference-"+sfx)
	case 5:
		verifAssert(lg.String() == verifLangNames[int(lg)], "concurrent-name-"+sfx)
	case 6: // unknown first word
		words := make([]string, 12)
		words[0] = "zzunknown" + sfx
		if sym != 0 {
			words[0] = verifToken("t"+sfx, lg)
			_, isM := verifGoldenIndex(lg, words[0])
			verifAssume(!isM)
		}
		for i := 1; i < 12; i++ {
			words[i] = verifGolden(lg, word(i))
		}
		err := CheckMnemonic(strings.Join(words, " "), lg)
		verifAssert(verifAnd(err != nil, verifAnd(!errors.Is(err, ErrWordLen), !errors.Is(err, ErrChecksumIncorrect))), "concurrent-unknown-word-rejected-"+sfx)
	case 7: // wrong count
		words := make([]string, 11)
		for i := range words {
			words[i] = verifGolden(lg, word(i))
		}
		verifAssert(errors.Is(CheckMnemonic(strings.Join(words, " "), lg), ErrWordLen), "concurrent-count-rejected-"+sfx)
	}
}

func H_C12_pair(opA int, lgA Language, opB int, lgB Language, sym int) {
	verifMark("A")
	verifC12Op(opA, lgA, "a", sym)
	verifMark("B")
	verifC12Op(opB, lgB, "b", sym)
	verifMark("end")
	verifReach("end")
}

// verifPar runs f and g concurrently. Under the engine they are cooperative threads whose
// interleavings (at synchronisation operations, with at most `preempt` preemptions) are explored
// exhaustively; natively they are two goroutines released together.
func verifPar(f, g func(), preempt int) {
	var wg sync.WaitGroup
	start := make(chan struct{})
	wg.Add(2)
	go func() { defer wg.Done(); <-start; f() }()
	go func() { defer wg.Done(); <-start; g() }()
	close(start)
	wg.Wait()
}

// verifStressRounds: 0 under the engine; natively the number of extra concurrent rounds used to
// reproduce a schedule-dependent failure the engine found.
func verifStressRounds() int {
	var v int64
	if verifGet("stress", &v) {
		return int(v)
	}
	return 0
}

func H_C12_sched(opA int, lgA Language, opB int, lgB Language, sym int) {
	verifGoldenList(int(lgA))
	verifGoldenList(int(lgB))
	verifPar(func() { verifC12Op(opA, lgA, "a", sym) }, func() { verifC12Op(opB, lgB, "b", sym) }, 2)
	// later calls, after both goroutines have finished, must still see consistent state
	verifC12Op(opA, lgA, "c", sym)
	verifC12Op(opB, lgB, "d", sym)
	if n := verifStressRounds(); n > 0 {
		// native reproduction of a schedule-dependent failure: both calls in tight loops, several
		// goroutines each, then the sequential calls again
		for rep := 0; rep < 20 && len(verifRes.Failures) == 0; rep++ {
			var wg sync.WaitGroup
			for g := 0; g < 4; g++ {
				wg.Add(2)
				go func() {
					defer wg.Done()
					for r := 0; r < n; r++ {
						verifC12Op(opA, lgA, "a", sym)
					}
				}()
				go func() {
					defer wg.Done()
					for r := 0; r < n; r++ {
						verifC12Op(opB, lgB, "b", sym)
					}
				}()
			}
			wg.Wait()
			verifC12Op(opA, lgA, "c", sym)
			verifC12Op(opB, lgB, "d", sym)
		}
	}
	verifReach("end")
}

func H_C12_race(opA int, lgA Language, opB int, lgB Language, sym int) {
	verifGoldenList(int(lgA))
	verifGoldenList(int(lgB))
	var wg sync.WaitGroup
	start := make(chan struct{})
	run := func(op int, lg Language, sfx string) {
		defer wg.Done()
		<-start
		verifC12Op(op, lg, sfx, sym)
	}
	wg.Add(2)
	go run(opA, lgA, "a")
	go run(opB, lgB, "b")
	// optionally more goroutines repeating the first call (a third cold-start caller)
	var extra int64
	verifGet("extra", &extra)
	for i := int64(0); i < extra; i++ {
		wg.Add(1)
		go run(opA, lgA, "a")
	}
	close(start)
	wg.Wait()
	verifReach("end")
}

// ---------------------------------------------------------------------------
// selfcheck: reference vectors through the reference (spec*), the real functions and — when run
// by the engine — the encoding. Everything is concrete; the engine's predicted observations are
// compared with the native ones (translator validation), and the reference itself is checked
// against the published Trezor vectors.

func verifHex(s string) []byte {
	out := make([]byte, len(s)/2)
	for i := range out {
		v, _ := strconv.ParseUint(s[2*i:2*i+2], 16, 8)
		out[i] = byte(v)
	}
	return out
}

func verifToHex(b []byte) string {
	const digits = "0123456789abcdef"
	out := make([]byte, 0, 2*len(b))
	for _, c := range b {
		out = append(out, digits[c>>4], digits[c&15])
	}
	return string(out)
}

func H_selfcheck() {
	type tv struct{ ent, words string }
	trezor := []tv{
		{"00000000000000000000000000000000", "abandon abandon abandon abandon abandon abandon abandon abandon abandon abandon abandon about"},
		{"7f7f7f7f7f7f7f7f7f7f7f7f7f7f7f7f", "legal winner thank year wave sausage worth useful legal winner thank yellow"},
		{"80808080808080808080808080808080", "letter advice cage absurd amount doctor acoustic avoid letter advice cage above"},
		{"ffffffffffffffffffffffffffffffff", "zoo zoo zoo zoo zoo zoo zoo zoo zoo zoo zoo wrong"},
		{"000000000000000000000000000000000000000000000000", "abandon abandon abandon abandon abandon abandon abandon abandon abandon abandon abandon abandon abandon abandon abandon abandon abandon agent"},
		{"0000000000000000000000000000000000000000000000000000000000000000", "abandon abandon abandon abandon abandon abandon abandon abandon abandon abandon abandon abandon abandon abandon abandon abandon abandon abandon abandon abandon abandon abandon abandon art"},
		{"ffffffffffffffffffffffffffffffffffffffffffffffffffffffffffffffff", "zoo zoo zoo zoo zoo zoo zoo zoo zoo zoo zoo zoo zoo zoo zoo zoo zoo zoo zoo zoo zoo zoo zoo vote"},
	}
	for i, v := range trezor {
		if v.words == "" {
			continue
		}
		ent := verifHex(v.ent)
		verifAssert(specSentence(English, ent) == v.words, "reference-matches-trezor-vector-"+itoa(i))
		got, err := NewMnemonicByEntropy(ent, English)
		verifObserve("enc"+itoa(i), got)
		verifAssert(err == nil, "enc-err-"+itoa(i))
		e := CheckMnemonic(v.words, English)
		verifObserveInt("chk"+itoa(i), verifVerdict(e))
		idx := make([]int, 0, 24)
		for _, w := range strings.Split(v.words, " ") {
			j, ok := verifGoldenIndex(English, w)
			verifAssert(ok, "trezor-word-in-golden-list")
			idx = append(idx, j)
		}
		verifAssert(specValid(idx), "reference-validates-trezor-vector-"+itoa(i))
		dec, _ := specDecode(idx)
		verifAssert(verifBytesEq(dec, ent), "reference-decodes-trezor-vector-"+itoa(i))
	}
	// the repository's own vectors
	sentences := []struct {
		m  string
		lg Language
	}{
		{"check fiscal fit sword unlock rough lottery tool sting pluck bulb random", English},
		{"rich soon pool legal busy add couch tower goose security raven anger", English},
		{"rich soon pool legal busy add couch tower goose security raven", English},
		{"rich soon pool legal busy add couch tower goose security women", English},
		{"rich soon pool legal busy add couch tower goose security base", English},
		{"氮 冠 锋 枪 做 到 容 枯 获 槽 弧 部", ChineseSimplified},
		{"氮 冠 鋒 槍 做 到 容 枯 獲 槽 弧 部", ChineseTraditional},
		{"ねほりはほり　ひらがな　とさか　そつう　おうじ　あてな　きくらげ　みもと　してつ　ぱそこん　にってい　いこつ", Japanese},
		{"posible ruptura ozono ligero bobina acto chuleta tetera gol realidad pez alerta", Spanish},
		{"pieuvre revivre nuptial implorer blinder accroche chute syntaxe félin promener parcelle aimable", French},
		{"risultato siccome prenotare mimosa bosco adottare continuo tifare ignaro sbloccato residente alticcio", Italian},
		{"전망 차선 이전 실장 기간 간판 대접 판단 생명 존재 잠깐 건축", Korean},
		{"ivory disorder hawk slot oil promote north fat zebra useless device cargo", English},
	}
	for i, sv := range sentences {
		verifObserveInt("sent"+itoa(i), verifVerdict(CheckMnemonic(sv.m, sv.lg)))
	}
	for l := 0; l < 10; l++ {
		got, _ := NewMnemonicByEntropy(verifHex("1578ce68fa99785d7f4229714472f207"), Language(l))
		verifObserve("lang"+itoa(l), got)
		verifAssert(got == specSentence(Language(l), verifHex("1578ce68fa99785d7f4229714472f207")), "reference-agrees-lang-"+itoa(l))
		verifObserve("name"+itoa(l), Language(l).String())
	}
	// seeds
	seed := MnemonicToSeed("abandon abandon abandon abandon abandon abandon abandon abandon abandon abandon abandon about", "TREZOR")
	verifObserve("seed", verifToHex(seed))
	verifAssert(verifToHex(verifSeedSpec(verifNFKD("abandon abandon abandon abandon abandon abandon abandon abandon abandon abandon abandon about"), "mnemonic"+verifNFKD("TREZOR"))) ==
		"c55257c360c07c72029aebc1b53c05ed0362ada38ead3e3e9efa3708e53495531f09a6987599d18264c1e1c92f2cf141630c7a3c4ab7c81b2f001698e7463b04", "reference-seed-matches-trezor")
	seedJ := MnemonicToSeed("ねほりはほり　ひらがな　とさか　そつう　おうじ　あてな　きくらげ　みもと　してつ　ぱそこん　にってい　いこつ", "㍍ガバヴァぱばぐゞちぢ十人十色")
	verifObserve("seedj", verifToHex(seedJ))
	verifReach("end")
}

// ---------------------------------------------------------------------------
// native replay entry

var verifHarnesses = map[string]func(a []int64){
	"H_C01":             func(a []int64) { H_C01(Language(a[0]), int(a[1])) },
	"H_C05":             func(a []int64) { H_C05(Language(a[0]), int(a[1])) },
	"H_C02_roundtrip":   func(a []int64) { H_C02_roundtrip(Language(a[0]), int(a[1])) },
	"H_C02_newmnemonic": func(a []int64) { H_C02_newmnemonic(Language(a[0]), int(a[1])) },
	"H_C02_complete":    func(a []int64) { H_C02_complete(Language(a[0]), int(a[1])) },
	"H_C03":             func(a []int64) { H_C03(Language(a[0]), int(a[1]), int(a[2])) },
	"H_C03_count":       func(a []int64) { H_C03_count(Language(a[0]), int(a[1])) },
	"H_C14_hostile":     func(a []int64) { H_C14_hostile(Language(a[0]), int(a[1]), int(a[2]), int(a[3])) },
	"H_C06_stuck":       func(a []int64) { H_C06_stuck(Language(a[0]), int(a[1]), int(a[2])) },
	"H_C03_bytes":       func(a []int64) { H_C03_bytes(Language(a[0]), int(a[1]), int(a[2]), int(a[3]), int(a[4])) },
	"H_C04":             func(a []int64) { H_C04() },
	"H_C11":             func(a []int64) { H_C11() },
	"H_C04_split":       func(a []int64) { H_C04_split() },
	"H_C11_spelled":     func(a []int64) { H_C11_spelled(Language(a[0]), int(a[1]), int(a[2])) },
	"H_C10_pre":         func(a []int64) { H_C10_pre(Language(a[0]), int(a[1])) },
	"H_C10_spelled":     func(a []int64) { H_C10_spelled(Language(a[0]), int(a[1]), int(a[2])) },
	"H_C06":             func(a []int64) { H_C06(Language(a[0]), int(a[1]), int(a[2])) },
	"H_C06_trickle":     func(a []int64) { H_C06_trickle(Language(a[0]), int(a[1]), int(a[2])) },
	"H_C07":             func(a []int64) { H_C07(Language(a[0]), int(a[1])) },
	"H_C09_entropy":     func(a []int64) { H_C09_entropy(Language(a[0])) },
	"H_C09_entropy_any": func(a []int64) { H_C09_entropy_any(Language(a[0])) },
	"H_C09_count":       func(a []int64) { H_C09_count(Language(a[0])) },
	"H_C16":             func(a []int64) { H_C16() },
	"H_selfcheck":       func(a []int64) { H_selfcheck() },
	"H_C14_String":      func(a []int64) { H_C14_String() },
	"H_C14_Entropy":     func(a []int64) { H_C14_Entropy(int(a[0])) },
	"H_C14_New":         func(a []int64) { H_C14_New(int(a[0]), int(a[1])) },
	"H_C14_Check":       func(a []int64) { H_C14_Check(int(a[0]), int(a[1])) },
	"H_C14_Seed":        func(a []int64) { H_C14_Seed() },
	"H_C08":             func(a []int64) { H_C08(Language(a[0])) },
	"H_C13_entropy":     func(a []int64) { H_C13_entropy(Language(a[0]), int(a[1]), int(a[2])) },
	"H_C13_check":       func(a []int64) { H_C13_check(Language(a[0]), int(a[1]), int(a[2])) },
	"H_C13_seed":        func(a []int64) { H_C13_seed() },
	"H_C13_xlang":       func(a []int64) { H_C13_xlang(Language(a[0]), Language(a[1]), int(a[2])) },
	"H_C13_seq":         func(a []int64) { H_C13_seq(Language(a[0]), int(a[1]), int(a[2])) },
	"H_C13_seq_gen":     func(a []int64) { H_C13_seq_gen(Language(a[0]), int(a[1]), int(a[2])) },
	"H_C12_pair":        func(a []int64) { H_C12_pair(int(a[0]), Language(a[1]), int(a[2]), Language(a[3]), int(a[4])) },
	"H_C12_sched":       func(a []int64) { H_C12_sched(int(a[0]), Language(a[1]), int(a[2]), Language(a[3]), int(a[4])) },
	"H_C12_race":        func(a []int64) { H_C12_race(int(a[0]), Language(a[1]), int(a[2]), Language(a[3]), int(a[4])) },
}

// VerifRun executes one vector natively and returns what happened.
func VerifRun(vectorJSON []byte) (res verifResult) {
	verifV = verifVector{}
	verifRes = verifResult{}
	verifNativeRand = nil
	if err := json.Unmarshal(vectorJSON, &verifV); err != nil {
		panic(err)
	}
	h, ok := verifHarnesses[verifV.Harness]
	if !ok {
		panic("verif: unknown harness " + verifV.Harness)
	}
	defer func() {
		if r := recover(); r != nil {
			if _, isAssume := r.(verifAssumeFailed); isAssume {
				verifRes.Assumed = true
			} else {
				verifRes.Panic = fmt.Sprint(r)
			}
		}
		res = verifRes
	}()
	h(verifV.Args)
	return verifRes
}
